"""C11 — every storage adapter honours the engine contract: `engine` suite on memkv, badger, tikv mock and
each behind the metrics wrapper; oracle = sorted-map reference with the documented contract."""
from .. import core
from ..gen import hx, rng_for

ENGINES = ["memkv", "badger", "tikv", "metrics-memkv", "metrics-badger", "metrics-tikv"]
KEYS = [b"a", b"a/b", b"a-b", b"ab", b"b", b"b9", b"c", b"c\xff", b"d", b"\x57\xfbk", b"m", b"zz"]
VALS = [b"1", b"22", b"333", b"v", b"old", b"new"]


def gen_case(seed, i, engine, n_ops):
    r = rng_for(seed, "c11/%d" % i)
    keys = r.sample(KEYS, r.randint(4, 9))
    lines = ["cfg engine=%s" % engine]
    shadow = {}

    def cond_op(must_hold):
        k = r.choice(keys)
        x = r.random()
        if x < 0.3:
            if must_hold and k in shadow:
                k2 = [q for q in keys if q not in shadow]
                k = r.choice(k2) if k2 else k
            return "pine:%s:%s" % (hx(k), hx(r.choice(VALS))), k
        if x < 0.7:
            old = shadow.get(k, r.choice(VALS)) if must_hold or r.random() < 0.5 else r.choice(VALS)
            if must_hold and k not in shadow:
                ks = list(shadow)
                if ks:
                    k = r.choice(ks)
                    old = shadow[k]
            return "cas:%s:%s:%s" % (hx(k), hx(r.choice(VALS)), hx(old)), k
        if x < 0.9:
            return "put:%s:%s" % (hx(k), hx(r.choice(VALS))), k
        return "del:%s" % hx(k), k

    for _ in range(n_ops):
        x = r.random()
        if x < 0.45:
            n = r.choice([1, 1, 2, 2, 3, 4])
            ok = r.random() < 0.6
            ops = []
            local = dict(shadow)
            good = True
            for j in range(n):
                op, k = cond_op(ok)
                ops.append(op)
                f = op.split(":")
                v = lambda s: b"" if s == "-" else bytes.fromhex(s)
                if f[0] == "pine":
                    if v(f[1]) in local:
                        good = False
                        break
                    local[v(f[1])] = v(f[2])
                elif f[0] == "cas":
                    if local.get(v(f[1])) != v(f[3]):
                        good = False
                        break
                    local[v(f[1])] = v(f[2])
                elif f[0] == "put":
                    local[v(f[1])] = v(f[2])
                else:
                    local.pop(v(f[1]), None)
            if good and len(ops) == n:
                shadow = local
            lines.append("batch " + " ".join(ops))
        elif x < 0.55:
            lines.append("get %s" % hx(r.choice(keys)))
        elif x < 0.85:
            a, b = r.choice(keys + [b"a0", b"b0", b"0", b"zzz"]), r.choice(keys + [b"a0", b"b0", b"0", b"zzz"])
            lines.append("iter %s %s %d" % (hx(a), hx(b), r.choice([0, 0, 0, 1, 2, 3])))
        elif x < 0.92:
            k = r.choice(keys)
            lines.append("del %s" % hx(k))
            shadow.pop(k, None)
        elif x < 0.97:
            a, b = sorted(r.sample(keys + [b"0", b"zzz"], 2))
            if r.random() < 0.5:
                lines.append("itdel %s %s %d" % (hx(a), hx(b), r.randint(0, 2)))
            else:
                lines.append("itdel %s %s %d rewrite=%s" % (hx(a), hx(b), r.randint(0, 1), hx(b"changed")))
            shadow = None or shadow
            lines.append("dump")
            # resync the shadow lazily: a dump follows; the generator's shadow may now be stale, which is fine
        else:
            lines.append("dump")
    lines.append("dump")
    return core.Case("engine", lines, {"engine": engine})


def unhx(s):
    return b"" if s == "-" else bytes.fromhex(s)


def oracle(case):
    """The contract, evaluated on the implementation's transcript with a plain dict as reference."""
    ref = {}
    for i, (line, out) in enumerate(zip(case.lines, case.impl)):
        t, o = line.split(), out.split()
        if t[0] == "batch":
            local = dict(ref)
            failed = False
            for op in t[1:]:
                f = op.split(":")
                k = unhx(f[1])
                if f[0] == "pine":
                    if k in local:
                        failed = True
                        break
                    local[k] = unhx(f[2])
                elif f[0] == "cas":
                    if local.get(k) != unhx(f[3]):
                        failed = True
                        break
                    local[k] = unhx(f[2])
                elif f[0] == "put":
                    local[k] = unhx(f[2])
                elif f[0] == "del":
                    local.pop(k, None)
            if failed:
                if o[1] == "ok":
                    return ("line %d: %s committed although a condition does not hold" % (i + 1, line), "condition-ignored")
                if o[1] != "cf":
                    return ("line %d: %s: a failed condition is reported as `%s`, not as a failed condition" % (i + 1, line, " ".join(o[1:])), "not-a-condition-error")
            else:
                if o[1] != "ok":
                    return ("line %d: %s rejected (%s) although all conditions hold" % (i + 1, line, " ".join(o[1:])), "spurious-failure")
                ref = local
        elif t[0] == "del" and o[1] == "ok":
            ref.pop(unhx(t[1]), None)
        elif t[0] == "get":
            want = ref.get(unhx(t[1]))
            got = None if o[1] == "nf" else unhx(o[1])
            if got != want:
                return ("line %d: %s -> %s, reference has %s (a failed batch left a partial effect, or a lost write)" % (i + 1, line, out, want), "get-mismatch")
        elif t[0] == "iter" and o[1] != "err":
            a, b, lim = unhx(t[1]), unhx(t[2]), int(t[3])
            if a < b:
                full = [(k, v) for k, v in sorted(ref.items()) if a <= k < b]
            elif a > b:
                full = [(k, v) for k, v in sorted(ref.items(), reverse=True) if b < k <= a]
            else:
                full = []
            got = [] if o[1] == "-" else [(unhx(x.split("=")[0]), unhx(x.split("=")[1])) for x in o[1].split(",")]
            if lim == 0:
                if got != full:
                    return ("line %d: %s yields %s, the interval holds %s" % (i + 1, line, got, full), "iter-mismatch")
            else:
                if got != full[:len(got)] or len(got) < min(lim, len(full)):
                    return ("line %d: %s yields %s, expected a prefix of %s with at least %d elements" % (i + 1, line, got, full, min(lim, len(full))), "iter-limit-mismatch")
        elif t[0] == "itdel" and len(o) >= 3 and o[1] not in ("eof", "err"):
            k = unhx(o[1])
            rewritten = any(x.startswith("rewrite=") for x in t)
            if rewritten:
                newv = unhx([x for x in t if x.startswith("rewrite=")][0].split("=")[1])
                same = ref.get(k) == newv   # a rewrite with identical bytes: value-comparing engines may delete
                ref[k] = newv
                if o[2] == "ok" and same:
                    ref.pop(k, None)
                elif o[2] == "ok":
                    return ("line %d: %s deleted a record that was changed after it was read" % (i + 1, line), "delcurrent-ignored-change")
            else:
                if o[2] != "ok":
                    return ("line %d: %s failed although the record is unchanged" % (i + 1, line), "delcurrent-spurious")
                ref.pop(k, None)
        elif t[0] == "dump":
            got = {} if o[1] == "-" else dict((unhx(x.split("=")[0]), unhx(x.split("=")[1])) for x in o[1].split(","))
            if got != ref:
                return ("line %d: store contents %s differ from the reference %s" % (i + 1, got, ref), "dump-mismatch")
    return None


def snapshot_case(seed, i, engine):
    """an iterator over many keys (several scan batches of the tikv client) with a write batch landing after its
    first elements: the iteration must come from ONE snapshot (the one taken when the iterator was created)"""
    r = rng_for(seed, "c11snap/%d" % i)
    n = r.choice([300, 700])
    pfx = b"k/"
    lines = ["cfg engine=%s" % engine, "load %d %s %s" % (n, hx(pfx), hx(b"v"))]
    for _ in range(3):
        far = [pfx + (b"%04d" % r.randint(n // 2, n - 1)) for _ in range(3)]
        ops = ["put:%s:%s" % (hx(far[0]), hx(b"changed")), "del:%s" % hx(far[1]), "put:%s:%s" % (hx(pfx + b"9999x"), hx(b"new"))]
        if r.random() < 0.5:
            lines.append("iterw %s %s %d %s" % (hx(pfx), hx(b"k0"), r.randint(0, 3), " ".join(ops)))
        else:
            lines.append("iterw %s %s %d %s" % (hx(b"k0"), hx(pfx), r.randint(0, 3), " ".join(ops)))
        lines.append("iter %s %s 0" % (hx(far[0]), hx(far[0] + b"0")))
    lines.append("dump")
    return core.Case("engine", lines, {"engine": engine, "snapshot": True})


def special_oracle(c):
    out = c.impl
    kind = c.meta["special"]
    if any(o.startswith("CRASHED") or o == "TIMEOUT" for o in out):
        return ("the engine process died: %s" % out[-1][:200], "engine-crashed")
    if kind == "ctx" and len(out) >= 5:
        present = sum(1 for o in out[2:5] if o not in ("get nf", "get err"))
        if present not in (0, 3):
            return ("%s: a batch committed under a dying context was applied in part (%d of 3 keys): %s" % (c.lines[1], present, out[1:5]), "batch-not-atomic")
        if out[1] == "batch ok" and present != 3:
            return ("%s answered ok but %d of 3 keys are visible" % (c.lines[1], present), "batch-not-atomic")
        if out[1] != "batch ok" and out[1] != "batch err uncertain" and present != 0:
            return ("%s answered the definite error `%s` although the batch was applied: %s" % (c.lines[1], out[1], out[2:5]), "definite-error-but-applied")
    if kind == "getabort" and len(out) >= 6:
        if out[3] == "batch ok" or out[4] != "get 6669727374" or (out[3] != "batch ok" and out[5] != "get nf"):
            return ("put-if-absent on an EXISTING key whose existence read failed: %s; afterwards key=%s other=%s "
                    "(must fail and change nothing)" % (out[3], out[4], out[5]), "put-if-absent-over-existing-key")
    if kind == "scan2" and len(out) >= 3:
        o = out[2]
        n = 0 if o in ("iter err", "iter -") else len(o.split(" ", 1)[1].split(","))
        if o != "iter err" and n != 600:
            return ("an iteration whose second fetch failed ended WITHOUT an error after %d of 600 keys" % n, "iterator-partial-without-error")
    return None


def check(rep, tier, seed):
    n, n_ops = (60, 80) if tier == "quick" else (6000, 200)
    cases = [gen_case(seed, i, ENGINES[i % len(ENGINES)], n_ops) for i in range(n)]
    cases += [snapshot_case(seed, i, ENGINES[i % 3]) for i in range(3 if tier == "quick" else 120)]
    # atomicity beyond the engine's per-transaction size limit (Badger: ~104857 entries): one batch of n puts whose
    # last operation fails its condition must leave nothing behind
    for eng, n_big in [("memkv", 2000), ("badger", 120000), ("metrics-badger", 120000)] + ([("tikv", 3000)] if tier != "quick" else []):
        cases.append(core.Case("engine", ["cfg engine=%s" % eng, "batch put:6b2f30:6f6c64", "bigbatch %d 6b2f" % n_big, "get 6b2f30", "dump"],
                               {"engine": eng, "snapshot": True, "big": True}))
    # atomicity under a caller that goes away: the context handed to Commit is cancelled / past its deadline /
    # dies after the first liveness poll; RPC-level faults between the TiKV client and the (mock) cluster
    special = []
    for eng in ["memkv", "badger", "tikv", "metrics-badger", "metrics-memkv"]:
        for kind in ("cancelled", "flaky", "deadline"):
            special.append(core.Case("engine", ["cfg engine=%s" % eng, "batch put:6131:31 put:6132:32 put:6133:33 ctx=%s" % kind,
                                                "get 6131", "get 6132", "get 6133"], {"engine": eng, "special": "ctx"}, compare=lambda op: False))
    special.append(core.Case("engine", ["cfg engine=tikv rpcfault=getabort", "batch put:6b3031:6669727374", "get 6b3031",
                                        "batch pine:6b3031:7468697264 put:6f74686572:78", "get 6b3031", "get 6f74686572"],
                             {"engine": "tikv", "special": "getabort"}, compare=lambda op: False))
    special.append(core.Case("engine", ["cfg engine=tikv rpcfault=scan2", "load 600 6b2f 76", "iter 6b2f 6b30 0"],
                             {"engine": "tikv", "special": "scan2"}, compare=lambda op: False))
    cases += special
    core.run_cases(cases)
    for c in cases:
        rep.count_case(c)
        if c.meta.get("special"):
            hit = special_oracle(c)
            if hit and core.handle_oracle_hit(rep, "C11", hit[1], c, hit[0], hit[1]):
                return
            continue
        hit = None if c.meta.get("snapshot") else oracle(c)
        if c.meta.get("big") and c.diff() is not None:
            hit = ("a batch that reported an error left part of itself behind: %s (all-or-nothing: %s)" % (c.impl[c.diff()], c.model[c.diff()]), "batch-not-atomic")
        if c.meta.get("snapshot") and c.diff() is not None:
            d = c.diff()
            if c.lines[d].startswith("iterw"):
                hit = ("line %d: an iterator that was open while a batch committed did not read from one snapshot: %s "
                       "(snapshot at creation: %s)" % (d + 1, c.impl[d], c.model[d]), "iterator-not-one-snapshot")
        if hit:
            if core.handle_oracle_hit(rep, "C11", hit[1], c, hit[0], hit[1], shrink_fn=(None if c.meta.get("snapshot") else (lambda x: oracle(x) is not None))):
                return
            continue
        if c.diff() is not None:
            core.handle_diff(rep, "C11", "correspondence", c)
            return
    rep.assumptions += ["non-empty values (tikv refuses empty values altogether)",
                        "sequential use of one engine handle; snapshot isolation of the third-party engines under real concurrency is assumed (differentially sampled only)",
                        "badger's DelCurrent compares versions (a rewrite with identical bytes also fails) — modelled"]
