"""C11 — every storage adapter honours the engine contract: `engine` suite on memkv, badger, tikv mock and
each behind the metrics wrapper; oracle = sorted-map reference with the documented contract."""
from .. import core
from ..gen import hx, rng_for

ENGINES = ["memkv", "badger", "tikv", "metrics-memkv", "metrics-badger", "metrics-tikv"]
EXTRA_PROP_MODULES = [("KB.Props.OrderC11", "KB.OrderC11"), ("KB.Props.C11Conflict", "KB.C11Conflict")]
KEYS = [b"a", b"a/b", b"a-b", b"ab", b"b", b"b9", b"c", b"c\xff", b"d", b"\x57\xfbk", b"m", b"zz"]
VALS = [b"1", b"22", b"333", b"v", b"old", b"new"]


def gen_case(seed, i, engine, n_ops):
    r = rng_for(seed, "c11/%d" % i)
    keys = r.sample(KEYS, r.randint(4, 9))
    lines = ["cfg engine=%s" % engine]
    shadow = {}

    def cond_op(must_hold):
        k = r.choice(keys)
        x = r.random()
        if x < 0.3:
            if must_hold and k in shadow:
                k2 = [q for q in keys if q not in shadow]
                k = r.choice(k2) if k2 else k
            return "pine:%s:%s" % (hx(k), hx(r.choice(VALS))), k
        if x < 0.7:
            old = shadow.get(k, r.choice(VALS)) if must_hold or r.random() < 0.5 else r.choice(VALS)
            if must_hold and k not in shadow:
                ks = list(shadow)
                if ks:
                    k = r.choice(ks)
                    old = shadow[k]
            return "cas:%s:%s:%s" % (hx(k), hx(r.choice(VALS)), hx(old)), k
        if x < 0.9:
            return "put:%s:%s" % (hx(k), hx(r.choice(VALS))), k
        return "del:%s" % hx(k), k

    for _ in range(n_ops):
        x = r.random()
        if x < 0.45:
            n = r.choice([1, 1, 2, 2, 3, 4])
            ok = r.random() < 0.6
            ops = []
            local = dict(shadow)
            good = True
            for j in range(n):
                op, k = cond_op(ok)
                ops.append(op)
                f = op.split(":")
                v = lambda s: b"" if s == "-" else bytes.fromhex(s)
                if f[0] == "pine":
                    if v(f[1]) in local:
                        good = False
                        break
                    local[v(f[1])] = v(f[2])
                elif f[0] == "cas":
                    if local.get(v(f[1])) != v(f[3]):
                        good = False
                        break
                    local[v(f[1])] = v(f[2])
                elif f[0] == "put":
                    local[v(f[1])] = v(f[2])
                else:
                    local.pop(v(f[1]), None)
            if good and len(ops) == n:
                shadow = local
            lines.append("batch " + " ".join(ops))
        elif x < 0.55:
            lines.append("get %s" % hx(r.choice(keys)))
        elif x < 0.85:
            a, b = r.choice(keys + [b"a0", b"b0", b"0", b"zzz"]), r.choice(keys + [b"a0", b"b0", b"0", b"zzz"])
            lines.append("iter %s %s %d" % (hx(a), hx(b), r.choice([0, 0, 0, 1, 2, 3])))
        elif x < 0.92:
            k = r.choice(keys)
            lines.append("del %s" % hx(k))
            shadow.pop(k, None)
        elif x < 0.97:
            a, b = sorted(r.sample(keys + [b"0", b"zzz"], 2))
            y = r.random()
            if y < 0.4:
                lines.append("itdel %s %s %d" % (hx(a), hx(b), r.randint(0, 2)))
            elif y < 0.7:
                lines.append("itdel %s %s %d rewrite=%s" % (hx(a), hx(b), r.randint(0, 1), hx(b"changed")))
            else:
                # the record under the iterator is removed before the compare-and-delete is evaluated
                lines.append("itdel %s %s %d remove=1" % (hx(a), hx(b), r.randint(0, 1)))
            shadow = None or shadow
            lines.append("dump")
            # resync the shadow lazily: a dump follows; the generator's shadow may now be stale, which is fine
        else:
            lines.append("dump")
    lines.append("dump")
    return core.Case("engine", lines, {"engine": engine})


def unhx(s):
    return b"" if s == "-" else bytes.fromhex(s)


def oracle(case):
    """The contract, evaluated on the implementation's transcript with a plain dict as reference."""
    ref = {}
    for i, (line, out) in enumerate(zip(case.lines, case.impl)):
        t, o = line.split(), out.split()
        if t[0] == "batch":
            local = dict(ref)
            failed = False
            for op in t[1:]:
                f = op.split(":")
                k = unhx(f[1])
                if f[0] == "pine":
                    if k in local:
                        failed = True
                        break
                    local[k] = unhx(f[2])
                elif f[0] == "cas":
                    if local.get(k) != unhx(f[3]):
                        failed = True
                        break
                    local[k] = unhx(f[2])
                elif f[0] == "put":
                    local[k] = unhx(f[2])
                elif f[0] == "del":
                    local.pop(k, None)
            if failed:
                if o[1] == "ok":
                    return ("line %d: %s committed although a condition does not hold" % (i + 1, line), "condition-ignored")
                if o[1] != "cf":
                    return ("line %d: %s: a failed condition is reported as `%s`, not as a failed condition" % (i + 1, line, " ".join(o[1:])), "not-a-condition-error")
            else:
                if o[1] != "ok":
                    return ("line %d: %s rejected (%s) although all conditions hold" % (i + 1, line, " ".join(o[1:])), "spurious-failure")
                ref = local
        elif t[0] == "del" and o[1] == "ok":
            ref.pop(unhx(t[1]), None)
        elif t[0] == "get":
            want = ref.get(unhx(t[1]))
            got = None if o[1] == "nf" else unhx(o[1])
            if got != want:
                return ("line %d: %s -> %s, reference has %s (a failed batch left a partial effect, or a lost write)" % (i + 1, line, out, want), "get-mismatch")
        elif t[0] == "iter" and o[1] != "err":
            a, b, lim = unhx(t[1]), unhx(t[2]), int(t[3])
            if a < b:
                full = [(k, v) for k, v in sorted(ref.items()) if a <= k < b]
            elif a > b:
                full = [(k, v) for k, v in sorted(ref.items(), reverse=True) if b < k <= a]
            else:
                full = []
            got = [] if o[1] == "-" else [(unhx(x.split("=")[0]), unhx(x.split("=")[1])) for x in o[1].split(",")]
            if lim == 0:
                if got != full:
                    return ("line %d: %s yields %s, the interval holds %s" % (i + 1, line, got, full), "iter-mismatch")
            else:
                if got != full[:len(got)] or len(got) < min(lim, len(full)):
                    return ("line %d: %s yields %s, expected a prefix of %s with at least %d elements" % (i + 1, line, got, full, min(lim, len(full))), "iter-limit-mismatch")
        elif t[0] == "itdel" and len(o) >= 3 and o[1] not in ("eof", "err"):
            k = unhx(o[1])
            rewritten = any(x.startswith("rewrite=") for x in t)
            if "remove=1" in t:
                ref.pop(k, None)
                if o[2] != "cf":
                    return ("line %d: %s: the compare-and-delete of a record that was removed after it was read answered `%s` - "
                            "a condition that does not hold must be reported as a failed condition, not as success or some other error"
                            % (i + 1, line, " ".join(o[2:])[:120]), "delcurrent-of-removed-record-not-a-failed-condition")
            elif rewritten:
                newv = unhx([x for x in t if x.startswith("rewrite=")][0].split("=")[1])
                same = ref.get(k) == newv   # a rewrite with identical bytes: value-comparing engines may delete
                ref[k] = newv
                if o[2] == "ok" and same:
                    ref.pop(k, None)
                elif o[2] == "ok":
                    return ("line %d: %s deleted a record that was changed after it was read" % (i + 1, line), "delcurrent-ignored-change")
            else:
                if o[2] != "ok":
                    return ("line %d: %s failed although the record is unchanged" % (i + 1, line), "delcurrent-spurious")
                ref.pop(k, None)
        elif t[0] == "dump":
            got = {} if o[1] == "-" else dict((unhx(x.split("=")[0]), unhx(x.split("=")[1])) for x in o[1].split(","))
            if got != ref:
                return ("line %d: store contents %s differ from the reference %s" % (i + 1, got, ref), "dump-mismatch")
    return None


# ------------------------------------------------------------------ abandoned transactions (TiKV rollback records)
#
# `bbegin <id> <ops>` begins a batch (on TiKV: the transaction and its start timestamp) and `bcommit <id>` commits it
# later; `abandon <ops>` (cfg rpcfault=abandon) is a writer whose caller goes away once its PREWRITE has reached the
# cluster: client-go rolls it back, a ROLLBACK record newer than the open batch's start timestamp stays on its keys.
# A rollback record is not a change of the key: the open batch's conditions are judged on the data (KB.C11Conflict).

def _holds(ops, ref):
    """conditions of a parsed batch [(kind, k, a, b)] on the dict `ref` (later ops see earlier ones); the new state"""
    local = dict(ref)
    for kind, k, a, b in ops:
        if kind == "pine":
            if k in local:
                return None
            local[k] = a
        elif kind == "cas":
            if local.get(k) != b:
                return None
            local[k] = a
        elif kind == "put":
            local[k] = a
        elif kind == "del":
            local.pop(k, None)
        elif kind == "delcur":
            if local.get(k) != a:
                return None
            local.pop(k, None)
    return local


def _parse_ops(toks, ref):
    ops = []
    for op in toks:
        f = op.split(":")
        k = unhx(f[1])
        if f[0] == "pine" or f[0] == "put":
            ops.append((f[0], k, unhx(f[2]), None))
        elif f[0] == "cas":
            ops.append(("cas", k, unhx(f[2]), unhx(f[3])))
        elif f[0] == "del":
            ops.append(("del", k, None, None))
        elif f[0] == "delcur":
            ops.append(("delcur", k, ref.get(k), None))     # the value the iterator stands on NOW
    return ops


def abandon_fixed_case(engine):
    """the three conditional operations, each begun before a writer on the same key is abandoned"""
    k, k2, other = hx(b"k"), hx(b"k2"), hx(b"other")
    lines = ["cfg engine=%s rpcfault=abandon" % engine,
             "batch put:%s:%s put:%s:%s" % (k, hx(b"v1"), other, hx(b"o")),
             # compare-and-swap
             "bbegin b1 cas:%s:%s:%s" % (k, hx(b"vB"), hx(b"v1")),
             "abandon cas:%s:%s:%s" % (k, hx(b"vA"), hx(b"v1")),
             "bcommit b1", "get %s" % k,
             # compare-and-delete
             "bbegin b2 delcur:%s" % k,
             "abandon put:%s:%s put:%s:%s" % (other, hx(b"oA"), k, hx(b"vA")),
             "bcommit b2", "get %s" % k, "get %s" % other,
             # put-if-absent on an absent key
             "bbegin b3 pine:%s:%s put:%s:%s" % (k2, hx(b"n"), other, hx(b"oB")),
             "abandon pine:%s:%s" % (k2, hx(b"nA")),
             "abandon put:%s:%s" % (k2, hx(b"nA2")),
             "bcommit b3", "get %s" % k2, "get %s" % other,
             "dump"]
    return core.Case("engine", lines, {"engine": engine, "abandon": True})


def real_change_fixed_case(engine):
    """the three conditional operations, each begun before a REAL, committed change of its key: the first attempt compares on the
    snapshot taken at begin (the condition holds there) and meets a write conflict; the re-run must evaluate the condition AGAIN
    on a fresh snapshot - it fails now, nothing of the batch is applied"""
    k, k2, other = hx(b"k"), hx(b"k2"), hx(b"other")
    lines = ["cfg engine=%s rpcfault=abandon" % engine,
             "batch put:%s:%s put:%s:%s" % (k, hx(b"v1"), other, hx(b"o")),
             "bbegin b1 delcur:%s" % k, "batch put:%s:%s" % (k, hx(b"v2")), "bcommit b1", "get %s" % k,
             "bbegin b2 cas:%s:%s:%s" % (k, hx(b"vB"), hx(b"v2")), "batch put:%s:%s" % (k, hx(b"v3")), "bcommit b2", "get %s" % k,
             "bbegin b3 pine:%s:%s" % (k2, hx(b"n")), "batch put:%s:%s" % (k2, hx(b"x")), "bcommit b3", "get %s" % k2,
             # the shape of the ttl pass's expiry batch: compare-and-delete of one record + plain delete of another
             "bbegin b4 delcur:%s del:%s" % (k, other), "batch put:%s:%s" % (k, hx(b"v4")), "bcommit b4", "get %s" % k, "get %s" % other,
             "dump"]
    return core.Case("engine", lines, {"engine": engine, "abandon": True})


def storm_case(engine):
    """`storm <n> <ops>`: before each of the first n prewrites of the next `bcommit` - the open transaction's and those of
    the re-runs inside the adapter's Commit - a writer on the same key is abandoned. Eight in a row: the ninth attempt
    commits. Nine in a row: every attempt met a write conflict - an ERROR (/repo ce077f1), never 'condition failed';
    nothing is applied. (Ties `maxConflictRetry` = 8.)"""
    k, k2 = hx(b"k"), hx(b"k2")
    lines = ["cfg engine=%s rpcfault=abandon" % engine, "batch put:%s:%s" % (k, hx(b"v1")),
             "bbegin b1 cas:%s:%s:%s" % (k, hx(b"vB"), hx(b"v1")), "storm 9 put:%s:%s" % (k, hx(b"z")), "bcommit b1", "get %s" % k,
             "bbegin b2 cas:%s:%s:%s" % (k, hx(b"vB"), hx(b"v1")), "storm 8 cas:%s:%s:%s" % (k, hx(b"z"), hx(b"v1")), "bcommit b2", "get %s" % k,
             "bbegin b3 delcur:%s" % k, "storm 9 del:%s" % k, "bcommit b3", "get %s" % k,
             "bbegin b4 pine:%s:%s" % (k2, hx(b"n")), "storm 10 pine:%s:%s" % (k2, hx(b"nA")), "bcommit b4", "get %s" % k2,
             "bbegin b5 pine:%s:%s delcur:%s" % (k2, hx(b"n"), k), "storm 3 put:%s:%s" % (k, hx(b"z")), "bcommit b5",
             "get %s" % k, "get %s" % k2, "dump"]
    return core.Case("engine", lines, {"engine": engine, "abandon": True})


def slow_writer_case(engine, kind):
    """no cancellation at all: writer A's COMMIT RPC is merely slow (`astart`: prewritten, then held). The open batch B
    is older than A's lock: its first attempt meets a write conflict; the key has not changed. B's re-run waits for
    TiKV's wall-clock lock ttl (3 s), rolls A back and commits; A learns at `afinish` that it was not applied."""
    k, k2 = hx(b"k"), hx(b"k2")
    bop, aop = {"cas": ("cas:%s:%s:%s" % (k, hx(b"vB"), hx(b"v1")), "cas:%s:%s:%s" % (k, hx(b"vA"), hx(b"v1"))),
                "delcur": ("delcur:%s" % k, "put:%s:%s" % (k, hx(b"vA"))),
                "pine": ("pine:%s:%s" % (k2, hx(b"n")), "pine:%s:%s" % (k2, hx(b"nA")))}[kind]
    lines = ["cfg engine=%s rpcfault=abandon" % engine, "batch put:%s:%s" % (k, hx(b"v1")),
             "bbegin b1 " + bop, "astart " + aop, "bcommit b1", "afinish", "get %s" % k, "get %s" % k2, "dump"]
    return core.Case("engine", lines, {"engine": engine, "abandon": True})


def abandon_case(seed, i, engine):
    r = rng_for(seed, "c11abandon/%d" % i)
    keys = r.sample([b"k", b"k2", b"a/b", b"m", b"zz", b"\x57\xfbk"], r.randint(2, 4))
    ref = {}
    lines = ["cfg engine=%s rpcfault=abandon" % engine]
    init = []
    for q in keys:
        if r.random() < 0.6:
            ref[q] = r.choice(VALS)
            init.append("put:%s:%s" % (hx(q), hx(ref[q])))
    if init:
        lines.append("batch " + " ".join(init))

    def cond_op(k, want_ok):
        """a conditional operation on k that holds / fails on ref"""
        if k in ref:
            if want_ok:
                return r.choice(["cas:%s:%s:%s" % (hx(k), hx(r.choice(VALS) + b"B"), hx(ref[k])), "delcur:%s" % hx(k)])
            return r.choice(["cas:%s:%s:%s" % (hx(k), hx(b"x"), hx(ref[k] + b"-stale")), "pine:%s:%s" % (hx(k), hx(b"x"))])
        if want_ok:
            return "pine:%s:%s" % (hx(k), hx(r.choice(VALS)))
        return "cas:%s:%s:%s" % (hx(k), hx(b"x"), hx(b"gone"))

    def writer_on(k):
        """an unconditional or holding write of k (the abandoned / the real writer)"""
        x = r.random()
        if k in ref and x < 0.4:
            return "cas:%s:%s:%s" % (hx(k), hx(b"wA"), hx(ref[k]))
        if k not in ref and x < 0.4:
            return "pine:%s:%s" % (hx(k), hx(b"wA"))
        if k in ref and x < 0.55:
            return "del:%s" % hx(k)
        return "put:%s:%s" % (hx(k), hx(r.choice(VALS) + b"w"))

    for j in range(r.randint(2, 5)):
        bkeys = r.sample(keys, r.randint(1, min(2, len(keys))))
        want_ok = r.random() < 0.8
        bops = [cond_op(k, want_ok or n > 0) for n, k in enumerate(bkeys)]
        if r.random() < 0.3:
            bops.append("put:%s:%s" % (hx(r.choice(keys)), hx(b"pB")))
        bid = "b%d" % j
        lines.append("bbegin %s %s" % (bid, " ".join(bops)))
        parsed = _parse_ops(bops, ref)
        held_at_begin = _holds(parsed, ref) is not None     # the first attempt runs on the snapshot taken here
        for _ in range(r.choice([1, 1, 1, 2, 3])):
            x = r.random()
            if x < 0.7:
                # abandoned writers on (some of) the batch's keys
                aops = [writer_on(k) for k in r.sample(bkeys, r.randint(1, len(bkeys)))]
                if r.random() < 0.3:
                    aops.append("put:%s:%s" % (hx(r.choice(keys)), hx(b"pA")))
                lines.append("abandon " + " ".join(aops))
            elif x < 0.8:
                # an abandoned writer whose own condition fails: it never prewrites
                lines.append("abandon " + cond_op(r.choice(bkeys), False))
            elif x < 0.93:
                # a REAL change of a key of the batch while it is open
                wop = writer_on(r.choice(bkeys))
                lines.append("batch " + wop)
                after = _holds(_parse_ops([wop], ref), ref)
                ref = ref if after is None else after
            else:
                lines.append("get %s" % hx(r.choice(bkeys)))
        storm = 0
        if r.random() < 0.25:
            # a run of abandoned writers, one before each of the first n prewrites of this commit (9 = all of them)
            storm = r.choice([1, 2, 8, 9, 9, 10])
            lines.append("storm %d %s" % (storm, writer_on(r.choice(bkeys))))
        lines.append("bcommit " + bid)
        new = _holds(parsed, ref)
        if new is not None and held_at_begin and storm < 9:
            ref = new
        for k in bkeys:
            lines.append("get %s" % hx(k))
    lines.append("dump")
    return core.Case("engine", lines, {"engine": engine, "abandon": True})


def abandon_oracle(case):
    """C11 on the implementation's transcript: a batch takes effect exactly when its conditions hold. `cf` on a batch
    whose conditions held on the data at EVERY moment between its begin and its commit is a failed condition that
    never was (C01's last clause at the engine level)."""
    ref = {}
    slow = None    # operations of the writer held at its commit RPC
    open_b = {}    # id -> [parsed ops, violated at some moment]
    for i, (line, out) in enumerate(zip(case.lines, case.impl)):
        t, o = line.split(), out.split()
        if len(o) < 2 and t[0] != "cfg":
            return ("line %d: %s -> `%s`" % (i + 1, line, out), "engine-crashed")
        changed = False
        if t[0] == "batch":
            new = _holds(_parse_ops(t[1:], ref), ref)
            if o[1] == "ok":
                if new is None:
                    return ("line %d: %s committed although a condition does not hold" % (i + 1, line), "condition-ignored")
                ref, changed = new, True
            elif new is not None:
                return ("line %d: %s rejected (%s) although all conditions hold" % (i + 1, line, " ".join(o[1:])), "spurious-failure")
        elif t[0] == "abandon":
            new = _holds(_parse_ops(t[1:], ref), ref)
            if o[1] == "ok":
                if new is None:
                    return ("line %d: %s committed although a condition does not hold" % (i + 1, line), "condition-ignored")
                ref, changed = new, True
            elif o[1] == "cf" and new is not None:
                return ("line %d: %s answered `%s` although its conditions hold" % (i + 1, line, out), "spurious-failure")
            elif o[-1] in ("norollback", "stuck-before-prewrite", "stuck-after-cancel", "no-rpcfault"):
                return None     # the schedule was not produced: nothing to judge
        elif t[0] == "astart":
            slow = _parse_ops(t[1:], ref)
            if o[1] != "held":
                slow = None
        elif t[0] == "afinish":
            if o[1] == "ok" and slow is not None:
                new = _holds(slow, ref)
                if new is not None:
                    ref, changed = new, True
            slow = None
        elif t[0] == "bbegin":
            ops = _parse_ops(t[2:], ref)
            open_b[t[1]] = [ops, _holds(ops, ref) is None]
        elif t[0] == "bcommit":
            if t[1] not in open_b:
                continue    # (a shrunk script) nothing was begun under this id
            ops, violated = open_b.pop(t[1])
            new = _holds(ops, ref)
            if o[1] == "ok":
                if new is None:
                    return ("line %d: %s committed although a condition does not hold on %s" % (i + 1, line, ref), "condition-ignored")
                ref, changed = new, True
            elif o[1] == "cf":
                if new is not None and not violated:
                    return ("line %d: batch %s (begun at line %d: `%s`) was answered 'condition failed' (%s), but its conditions held "
                            "on the data at every moment between its begin and its commit - no key of it ever changed (the only "
                            "other writers on them were not applied)" % (
                                i + 1, t[1], 1 + max(j for j in range(i) if case.lines[j].startswith("bbegin " + t[1] + " ")),
                                [l for l in case.lines if l.startswith("bbegin " + t[1] + " ")][0], out),
                            "condition-failed-but-key-never-changed")
            elif new is None:
                return ("line %d: %s: a failed condition is reported as `%s`, not as a failed condition" % (i + 1, line, " ".join(o[1:])), "not-a-condition-error")
            # `err …` on a batch whose conditions hold: allowed (nothing may have been applied: checked by get/dump)
        elif t[0] == "get":
            want = ref.get(unhx(t[1]))
            got = None if o[1] == "nf" else unhx(o[1])
            if got != want:
                return ("line %d: %s -> %s, reference has %s" % (i + 1, line, out, want), "get-mismatch")
        elif t[0] == "dump":
            got = {} if o[1] == "-" else dict((unhx(x.split("=")[0]), unhx(x.split("=")[1])) for x in o[1].split(","))
            if got != ref:
                return ("line %d: store contents %s differ from the reference %s" % (i + 1, got, ref), "dump-mismatch")
        if changed:
            for b in open_b.values():
                if _holds(b[0], ref) is None:
                    b[1] = True
    return None


def snapshot_case(seed, i, engine):
    """an iterator over many keys (several scan batches of the tikv client) with a write batch landing after its
    first elements: the iteration must come from ONE snapshot (the one taken when the iterator was created)"""
    r = rng_for(seed, "c11snap/%d" % i)
    n = r.choice([300, 700])
    pfx = b"k/"
    lines = ["cfg engine=%s" % engine, "load %d %s %s" % (n, hx(pfx), hx(b"v"))]
    for _ in range(3):
        far = [pfx + (b"%04d" % r.randint(n // 2, n - 1)) for _ in range(3)]
        ops = ["put:%s:%s" % (hx(far[0]), hx(b"changed")), "del:%s" % hx(far[1]), "put:%s:%s" % (hx(pfx + b"9999x"), hx(b"new"))]
        if r.random() < 0.5:
            lines.append("iterw %s %s %d %s" % (hx(pfx), hx(b"k0"), r.randint(0, 3), " ".join(ops)))
        else:
            lines.append("iterw %s %s %d %s" % (hx(b"k0"), hx(pfx), r.randint(0, 3), " ".join(ops)))
        lines.append("iter %s %s 0" % (hx(far[0]), hx(far[0] + b"0")))
    lines.append("dump")
    return core.Case("engine", lines, {"engine": engine, "snapshot": True})


def special_oracle(c):
    out = c.impl
    kind = c.meta["special"]
    if any(o.startswith("CRASHED") or o == "TIMEOUT" for o in out):
        return ("the engine process died: %s" % out[-1][:200], "engine-crashed")
    if kind == "ctx" and len(out) >= 5:
        present = sum(1 for o in out[2:5] if o not in ("get nf", "get err"))
        if present not in (0, 3):
            return ("%s: a batch committed under a dying context was applied in part (%d of 3 keys): %s" % (c.lines[1], present, out[1:5]), "batch-not-atomic")
        if out[1] == "batch ok" and present != 3:
            return ("%s answered ok but %d of 3 keys are visible" % (c.lines[1], present), "batch-not-atomic")
        if out[1] != "batch ok" and out[1] != "batch err uncertain" and present != 0:
            return ("%s answered the definite error `%s` although the batch was applied: %s" % (c.lines[1], out[1], out[2:5]), "definite-error-but-applied")
    if kind == "getabort" and len(out) >= 6:
        if out[3] == "batch ok" or out[4] != "get 6669727374" or (out[3] != "batch ok" and out[5] != "get nf"):
            return ("put-if-absent on an EXISTING key whose existence read failed: %s; afterwards key=%s other=%s "
                    "(must fail and change nothing)" % (out[3], out[4], out[5]), "put-if-absent-over-existing-key")
    if kind == "scan2" and len(out) >= 3:
        o = out[2]
        n = 0 if o in ("iter err", "iter -") else len(o.split(" ", 1)[1].split(","))
        if o != "iter err" and n != 600:
            return ("an iteration whose second fetch failed ended WITHOUT an error after %d of 600 keys" % n, "iterator-partial-without-error")
    return None


def check(rep, tier, seed):
    n, n_ops = (60, 80) if tier == "quick" else (6000, 200)
    cases = [gen_case(seed, i, ENGINES[i % len(ENGINES)], n_ops) for i in range(n)]
    cases += [snapshot_case(seed, i, ENGINES[i % 3]) for i in range(3 if tier == "quick" else 120)]
    # compare-and-delete of a record that was REMOVED (rewritten: the random scripts) after the iterator read it, on every
    # engine configuration: a failed condition, never success and never some other error
    for eng in ["memkv", "badger", "tikv", "metrics-tikv", "metrics-memkv", "metrics-badger"]:
        cases.append(core.Case("engine", ["cfg engine=%s" % eng, "batch put:6b31:7631 put:6b32:7632 put:6b33:7633", "itdel 6b 6c 0 remove=1", "dump",
                                          "itdel 6b 6c 1 remove=1", "dump", "itdel 6b 6c 0", "dump"], {"engine": eng}))
    # atomicity beyond the engine's per-transaction size limit (Badger: ~104857 entries): one batch of n puts whose
    # last operation fails its condition must leave nothing behind
    for eng, n_big in [("memkv", 2000), ("badger", 120000), ("metrics-badger", 120000)] + ([("tikv", 3000)] if tier != "quick" else []):
        cases.append(core.Case("engine", ["cfg engine=%s" % eng, "batch put:6b2f30:6f6c64", "bigbatch %d 6b2f" % n_big, "get 6b2f30", "dump"],
                               {"engine": eng, "snapshot": True, "big": True}))
    # atomicity under a caller that goes away: the context handed to Commit is cancelled / past its deadline /
    # dies after the first liveness poll; RPC-level faults between the TiKV client and the (mock) cluster
    special = []
    for eng in ["memkv", "badger", "tikv", "metrics-badger", "metrics-memkv"]:
        for kind in ("cancelled", "flaky", "deadline"):
            special.append(core.Case("engine", ["cfg engine=%s" % eng, "batch put:6131:31 put:6132:32 put:6133:33 ctx=%s" % kind,
                                                "get 6131", "get 6132", "get 6133"], {"engine": eng, "special": "ctx"}, compare=lambda op: False))
    special.append(core.Case("engine", ["cfg engine=tikv rpcfault=getabort", "batch put:6b3031:6669727374", "get 6b3031",
                                        "batch pine:6b3031:7468697264 put:6f74686572:78", "get 6b3031", "get 6f74686572"],
                             {"engine": "tikv", "special": "getabort"}, compare=lambda op: False))
    special.append(core.Case("engine", ["cfg engine=tikv rpcfault=scan2", "load 600 6b2f 76", "iter 6b2f 6b30 0"],
                             {"engine": "tikv", "special": "scan2"}, compare=lambda op: False))
    cases += special
    # abandoned transactions: a rollback record is not a change of the key (tikv, bare and behind the metrics wrapper)
    ab = [abandon_fixed_case(e) for e in ("tikv", "metrics-tikv")] + [storm_case(e) for e in ("tikv", "metrics-tikv")]
    ab += [real_change_fixed_case(e) for e in ("tikv", "metrics-tikv")]
    ab += [abandon_case(seed, i, ("tikv", "metrics-tikv")[i % 2]) for i in range(2 if tier == "quick" else 400)]
    if tier != "quick":
        # the schedule without any cancellation (waits for TiKV's 3 s lock ttl: not in the quick tier)
        ab += [slow_writer_case(e, kind) for e in ("tikv", "metrics-tikv") for kind in ("cas", "delcur", "pine")]
    cases += ab
    core.run_cases(cases)
    # first the cases whose oracle names a concrete failing input of the newest clause
    for c in ab:
        hit = abandon_oracle(c)
        if hit and core.handle_oracle_hit(rep, "C11", hit[1], c, hit[0], hit[1], shrink_fn=lambda x: abandon_oracle(x) is not None):
            return
    for c in cases:
        rep.count_case(c)
        if c.meta.get("abandon"):
            if abandon_oracle(c) is None and c.diff() is not None:
                core.handle_diff(rep, "C11", "correspondence", c)
                return
            continue
        if c.meta.get("special"):
            hit = special_oracle(c)
            if hit and core.handle_oracle_hit(rep, "C11", hit[1], c, hit[0], hit[1]):
                return
            continue
        hit = None if c.meta.get("snapshot") else oracle(c)
        if c.meta.get("big") and c.diff() is not None:
            hit = ("a batch that reported an error left part of itself behind: %s (all-or-nothing: %s)" % (c.impl[c.diff()], c.model[c.diff()]), "batch-not-atomic")
        if c.meta.get("snapshot") and c.diff() is not None:
            d = c.diff()
            if c.lines[d].startswith("iterw"):
                hit = ("line %d: an iterator that was open while a batch committed did not read from one snapshot: %s "
                       "(snapshot at creation: %s)" % (d + 1, c.impl[d], c.model[d]), "iterator-not-one-snapshot")
        if hit:
            if core.handle_oracle_hit(rep, "C11", hit[1], c, hit[0], hit[1], shrink_fn=(None if c.meta.get("snapshot") else (lambda x: oracle(x) is not None))):
                return
            continue
        if c.diff() is not None:
            core.handle_diff(rep, "C11", "correspondence", c)
            return
    rep.cov["abandoned_writer_scripts"] = len(ab)
    rep.assumptions += ["tikv: a write conflict is settled by re-running the batch at most 8 times; nine consecutive conflicts are an ERROR "
                        "(/repo ce077f1; KB.C11Conflict.persistent_conflict_is_error_and_applies_nothing; produced by `storm 9`)",
                        "non-empty values (tikv refuses empty values altogether)",
                        "sequential use of one engine handle; snapshot isolation of the third-party engines under real concurrency is assumed (differentially sampled only)",
                        "badger's DelCurrent compares versions (a rewrite with identical bytes also fails) — modelled"]
