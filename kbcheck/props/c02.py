"""C02 — revisions are unique, agree with real time and each key's history; header >= data."""
from .. import core, hist, sched
from ..gen import KEY_POOL, rng_for
from . import c03

ENGINES = ["memkv", "badger", "tikv"]
EXTRA_PROP_MODULES = [("KB.Props.C02Store", "KB.C02Store")]


def check(rep, tier, seed):
    n, n_clients = (36, 4) if tier == "quick" else (1200, 6)
    cases = []
    for i in range(n):
        r = rng_for(seed, "c02/%d" % i)
        keys = r.sample(KEY_POOL[:8], r.randint(1, 3))
        cases.append(sched.gen_schedule(r, n_clients if i % 2 else 3, keys, ENGINES[i % 3]))
    # sequential histories for the header/data relation of read responses (incl. reads above the committed revision)
    seqs = [c03.gen_case(seed + 1000, i, ENGINES[i % 3], 40) for i in range(12 if tier == "quick" else 300)]
    # all interleavings of two clients on one live key, every pair of request shapes (as in C01): the response
    # of the LOSER of a race carries the winner's kv - its header must cover it
    from . import c01
    cases += c01.exhaustive_pairs(seed, "memkv")
    core.run_cases(cases + seqs)
    for c in cases:
        rep.count_case(c)
        hit = sched.oracle_c02(c)
        if hit:
            if core.handle_oracle_hit(rep, "C02", hit[1], c, hit[0], hit[1]):
                return
            continue
        if c.diff() is not None:
            core.handle_diff(rep, "C02", "correspondence", c)
            return
    for c in seqs:
        rep.count_case(c)
        hit = hist.check_headers(c)
        if hit:
            if core.handle_oracle_hit(rep, "C02", hit[1], c, hit[0], hit[1]):
                return
            continue
        if c.diff() is not None:
            core.handle_diff(rep, "C02", "correspondence-seq", c)
            return
    rep.assumptions += ["real time is observed at script granularity: A completed before B began = A's `done` line precedes B's `start` line"]
