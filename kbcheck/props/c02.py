"""C02 — revisions are unique, agree with real time and each key's history; header >= data."""
from .. import core, hist, sched
from ..gen import KEY_POOL, rng_for
from . import c03

ENGINES = ["memkv", "badger", "tikv"]
EXTRA_PROP_MODULES = [("KB.Props.C02Store", "KB.C02Store"), ("KB.Props.C02Lag", "KB.C02Lag"), ("KB.Props.OrderC15", "KB.OrderC15"),
                      # uniqueness of a dealt revision at the allocator's own granularity (one atomic instruction per step,
                      # refusals of a full window included), tied to tso.go by the regenerated shape facts
                      ("KB.Props.C18Cas", "KB.C18Cas")]


def lag_case(seed, i, engine):
    """a node whose revision counters stand BELOW revisions already stored for the keys (a deposed leader that has
    not noticed yet): whatever it answers, a key's history must stay strictly increasing and no header may be below
    the data it carries"""
    from ..gen import PREFIX, hx
    r = rng_for(seed, "c02lag/%d" % i)
    keys = r.sample([k for k in KEY_POOL if b"events" not in k][:8], r.randint(2, 3))
    sh = hist.Shadow()
    lines = [hist.cfg_line(engine)]
    lines += hist.gen_writes(r, sh, r.randint(4, 10), keys, p_ok=0.9)
    lines += ["rev", "lowrev %d" % (hist.INIT + r.randint(0, max(0, sh.dealt - hist.INIT - 1)))]
    lines += ["get %s 0" % hx(k) for k in keys]      # what each key reads as before the lagging node touches it
    for k in keys:
        cur = sh.keys.get(k)
        currev = cur[0] if cur else 0
        opts = ["delete %s 0" % hx(k), "delete %s %d" % (hx(k), currev), "update %s %s %d" % (hx(k), hx(b"low"), currev),
                "create %s %s" % (hx(k), hx(b"low"))]
        r.shuffle(opts)
        for o in opts[:r.randint(2, 4)]:
            lines += [o, "rev", "get %s 0" % hx(k)]     # `rev` waits for the sequencer (expected-guided)
    lines += ["list %s %s 0 0" % (hx(PREFIX + b"/"), hx(PREFIX + b"0")), "dump"]
    return core.Case("backend", lines, {"engine": engine, "lag": True})


def native_watch_case(seed, i, engine):
    """the NATIVE watch handler (pkg/server/brain) on an in-process stream: history, then a watch from an old revision
    (replayed from the cache) or from `now`, then more writes; every response header must cover the events it carries"""
    from ..gen import PREFIX, hx
    r = rng_for(seed, "c02nw/%d" % i)
    keys = r.sample([k for k in KEY_POOL if b"events" not in k][:8], r.randint(1, 3))
    sh = hist.Shadow()
    lines = [hist.cfg_line(engine)]
    lines += hist.gen_writes(r, sh, r.randint(2, 8), keys, p_ok=0.9)
    # from the next revision on (a watch from "now" = 0 may still be handed what the hub has not fanned out yet: the
    # model has no such lag), or from a revision in the cache
    start = sh.dealt + 1 if i % 2 == 0 else hist.INIT + r.randint(1, max(1, sh.dealt - hist.INIT))
    lines += ["bwatch w %s %d" % (hx(PREFIX + b"/"), start), "bdrain w"]
    lines += hist.gen_writes(r, sh, r.randint(2, 8), keys, p_ok=0.9)
    lines += ["bdrain w"]
    return core.Case("backend", lines, {"engine": engine, "native_watch": True})


def native_watch_oracle(case):
    for i, (line, out) in enumerate(zip(case.lines, case.impl)):
        if line.startswith("bdrain") and " hdrok=0" in out:
            return ("line %d: a native watch response carried an event whose revision is above the response header: %s"
                    % (i + 1, out), "watch-header-lt-data")
    return None


def lag_oracle(case):
    newest = {}
    last_get = {}    # key -> what the last point read of it answered, if nothing was written to it since
    for i, (line, out) in enumerate(zip(case.lines, case.impl)):
        t, o = line.split(), out.split()
        if t[0] == "get" and len(o) == 3 and o[1] != "err":
            last_get[t[1]] = o[2]
        if t[0] == "create" and len(o) >= 2 and o[1] == "cf" and last_get.get(t[1]) == "-":
            # requests are sequential here: the key read absent before the create, nothing touched it since, and it
            # reads absent right after - it was absent during the whole request (the allocator lags behind the key's
            # deletion record: /repo 42e5238 answers an error)
            after = [case.impl[j].split() for j in range(i + 1, min(i + 3, len(case.lines))) if case.lines[j].split()[:2] == ["get", t[1]]]
            if after and len(after[0]) == 3 and after[0][2] == "-":
                return ("line %d: `%s` was answered 'condition failed' (%s) although key %s read absent before and after it and no "
                        "other request ran in between (sequential script, allocator lagging behind the key's deletion record): the "
                        "condition 'absent' did not fail" % (i + 1, line, out, t[1]), "create-cf-on-deleted-key-lagging-allocator")
        if t[0] in ("create", "update", "delete") and not (len(o) >= 2 and o[1] in ("cf", "nf")):
            last_get.pop(t[1], None)
        if t[0] in ("create", "update", "delete") and len(o) >= 3 and o[1] == "ok":
            k, rev = t[1], int(o[2])
            if k in newest and rev <= newest[k]:
                return ("line %d: `%s` succeeded with revision %d although key %s already has a version at revision %d: "
                        "the key's history is not strictly increasing" % (i + 1, line, rev, k, newest[k]), "key-history-not-increasing")
            newest[k] = rev
            if t[0] == "delete" and len(o) >= 4 and "@" in o[3]:
                kvrev = int(o[3].rsplit("@", 1)[1])
                if kvrev > rev:
                    return ("line %d: `%s` answered header %d below the revision %d of the kv it carries" % (i + 1, line, rev, kvrev), "header-lt-data")
    return None


def check(rep, tier, seed):
    n, n_clients = (36, 4) if tier == "quick" else (5000, 6)
    cases = []
    for i in range(n):
        r = rng_for(seed, "c02/%d" % i)
        keys = r.sample(KEY_POOL[:8], r.randint(1, 3))
        cases.append(sched.gen_schedule(r, n_clients if i % 2 else 3, keys, ENGINES[i % 3]))
    # sequential histories for the header/data relation of read responses (incl. reads above the committed revision)
    seqs = [c03.gen_case(seed + 1000, i, ENGINES[i % 3], 40) for i in range(12 if tier == "quick" else 1500)]
    # all interleavings of two clients on one live key, every pair of request shapes (as in C01): the response
    # of the LOSER of a race carries the winner's kv - its header must cover it
    from . import c01
    cases += c01.exhaustive_pairs(seed, "memkv")
    lags = [lag_case(seed, i, ENGINES[i % 3]) for i in range(9 if tier == "quick" else 900)]
    nws = [native_watch_case(seed, i, ENGINES[i % 3]) for i in range(6 if tier == "quick" else 600)]
    core.run_cases(cases + seqs + lags + nws)
    for c in nws:
        rep.count_case(c)
        hit = native_watch_oracle(c)
        if hit:
            if core.handle_oracle_hit(rep, "C02", hit[1], c, hit[0], hit[1]):
                return
            continue
        if c.diff() is not None:
            core.handle_diff(rep, "C02", "correspondence-native-watch", c)
            return
    for c in lags:
        rep.count_case(c)
        hit = lag_oracle(c)
        if hit:
            if core.handle_oracle_hit(rep, "C02", hit[1], c, hit[0], hit[1]):
                return
            continue
        if c.diff() is not None:
            core.handle_diff(rep, "C02", "correspondence-lag", c)
            return
    for c in cases:
        rep.count_case(c)
        hit = sched.oracle_c02(c)
        if hit:
            if core.handle_oracle_hit(rep, "C02", hit[1], c, hit[0], hit[1]):
                return
            continue
        if c.diff() is not None:
            core.handle_diff(rep, "C02", "correspondence", c)
            return
    for c in seqs:
        rep.count_case(c)
        hit = hist.check_headers(c)
        if hit:
            if core.handle_oracle_hit(rep, "C02", hit[1], c, hit[0], hit[1]):
                return
            continue
        if c.diff() is not None:
            core.handle_diff(rep, "C02", "correspondence-seq", c)
            return
    rep.assumptions += ["real time is observed at script granularity: A completed before B began = A's `done` line precedes B's `start` line"]
    if not rep.violations:
        # the allocator itself under concurrent Deal / Commit, incl. the edge of a full window (supporting evidence and search)
        from .. import tsocas
        tsocas.run_dynamic(rep, "C02", seed)
