"""C01 — conditional writes never lose an update."""
from .. import core, sched
from ..gen import KEY_POOL, PREFIX, hx, rng_for

ENGINES = ["memkv", "badger", "tikv"]
EXTRA_PROP_MODULES = [("KB.Props.OrderC11", "KB.OrderC11"), ("KB.Props.C11Conflict", "KB.C11Conflict"), ("KB.Props.C01Repair", "KB.C01Repair")]


def exhaustive_pairs(seed, engine):
    """all interleavings of two 3-step clients on one key, for each pair of request shapes"""
    cases = []
    k = b"/r/a"
    shapes = ["create %s c1", "update %s u1 1001", "delete %s 1001", "update %s u2 0", "delete %s 0", "update %s u3 1002"]
    import random
    for a in range(len(shapes)):
        for b in range(a, len(shapes)):
            for order in sched.all_interleavings([3, 3]):
                r = random.Random(0)
                c = sched.gen_schedule(r, 2, [k], engine, reads=False, exhaustive_order=order)
                # fixed initial state: the key live at revision 1001
                lines = [c.lines[0], "gated 1", "start p1 create %s %s" % (hx(k), hx(b"init")), "step p1", "rev"]
                reqs = [shapes[a] % hx(k), shapes[b] % hx(k)]
                started = set()
                for i in order:
                    if i not in started:
                        started.add(i)
                        parts = reqs[i].split()
                        parts[2:3] = [hx(parts[2].encode())] if parts[0] != "delete" else parts[2:3]
                        lines.append("start c%d %s" % (i + 1, " ".join(parts)))
                    else:
                        lines.append("step c%d" % (i + 1))
                for i in range(2):
                    lines += ["step c%d" % (i + 1)] * 3
                lines += ["rev", "get %s 0" % hx(k), "dump"]
                cases.append(core.Case("backend", lines, {"engine": engine, "nreq": 3, "keys": [k], "pair": (a, b)}, model_suite="sched"))
    return cases


def stress_case(engine, clients, ops):
    """free-running concurrent writers (no gates): the engine's own isolation is exercised; judged by the
    chain oracle only (the schedule is the Go scheduler's, so the model is not compared)"""
    from .. import hist
    keys = [b"/r/s1", b"/r/s2"]
    lines = [hist.cfg_line(engine), "stress %d %d %s" % (clients, ops, ",".join(hx(k) for k in keys))]
    return core.Case("backend", lines, {"engine": engine, "stress": True}, compare=lambda op: op != "stress")


def stress_oracle(case):
    out = case.impl[1].split() if len(case.impl) > 1 else []
    if len(out) < 3 or out[0] != "stress":
        return None
    per_key = {}
    if out[1] != "-":
        for e in out[1].split(","):
            verb, key, rev, exp = e.split(":")
            per_key.setdefault(key, []).append((int(rev), verb, int(exp)))
    finals = dict(x.split("=") for x in out[2].split("=", 1)[1].split(","))
    for key, ws in per_key.items():
        ws.sort()
        prev = None
        for rev, verb, exp in ws:
            if verb == "create":
                if prev is not None and prev[1]:
                    return ("key %s: create at %d succeeded although the key was live at %d" % (key, rev, prev[0]), "stress-create-over-live")
            else:
                if prev is None or not prev[1] or prev[0] != exp:
                    return ("key %s: %s at %d conditioned on %d succeeded but its predecessor in the chain is %s: "
                            "two writers conditioned on the same revision both succeeded / a lost update" % (key, verb, rev, exp, prev), "stress-chain-broken")
            prev = (rev, verb != "delete")
        fin = finals.get(key)
        if fin is not None and fin != "err":
            if prev[1] and fin != str(prev[0]):
                return ("key %s: chain ends live at %d but the store shows %s" % (key, prev[0], fin), "stress-final-mismatch")
            if not prev[1] and fin != "-":
                return ("key %s: chain ends with a delete at %d but the store shows %s" % (key, prev[0], fin), "stress-final-mismatch")
    return None


# ------------------------------------------------------------------ a writer that is abandoned (TiKV rollback record)
#
# `prebegin <id>` begins an engine transaction (on TiKV: its start timestamp) that a later request `… txn=<id>` commits
# its batch through - client B, slow between BeginBatchWrite and Commit. `… abandon=1` (cfg rpcfault=abandon) is client
# A, who goes away once the PREWRITE of its transaction has reached the cluster: client-go rolls it back and a rollback
# record newer than B's start timestamp stays on the key's index record. A is not applied, the key never changes: B,
# naming the revision the key has, must succeed (or fail with an error) - never "condition failed".

def abandon_case(seed, i, engine, shape=None):
    from .. import hist
    r = rng_for(seed, "c01abandon/%d" % i)
    k = r.choice([b"/r/a", b"/r/pods/p1", b"/r/a/b"])
    other = b"/r/other"
    verb_b, verb_a, n_abandon, twist = shape or (r.choice(["update", "update", "delete", "create"]), r.choice(["update", "delete"]),
                                                 r.choice([1, 1, 2]), r.choice(["none", "none", "none", "stale", "real", "other"]))
    lines = [hist.cfg_line(engine, retry=0, check=5, rpcfault="abandon"), "arm retry.step"]
    rev = hist.INIT
    if r.random() < 0.5:
        lines += ["create %s %s" % (hx(other), hx(b"o1")), "rev"]
        rev += 1
    cur = None
    if verb_b != "create":
        lines += ["create %s %s" % (hx(k), hx(b"v1")), "rev"]
        rev += 1
        cur = rev
        if r.random() < 0.4:
            lines += ["update %s %s %d" % (hx(k), hx(b"v2"), cur), "rev"]
            rev += 1
            cur = rev

    def req(verb, val, exp):
        if verb == "create":
            return "create %s %s" % (hx(k), hx(val))
        if verb == "update":
            return "update %s %s %d" % (hx(k), hx(val), exp)
        return "delete %s %d" % (hx(k), exp)

    lines += ["get %s 0" % hx(k), "prebegin b1"]
    for j in range(n_abandon):
        va = "create" if cur is None else verb_a
        lines += [req(va, b"vA%d" % j, cur or 0) + " abandon=1", "rev", "await retry.step"]
        rev += 1
        if j + 1 < n_abandon:
            lines += ["retry", "rev", "await retry.step"]      # A's repair finds the key untouched: unnecessary
    exp_b = cur or 0
    if twist == "real" and cur is not None:
        # the key REALLY changes while B is open: B's answer `condition failed` is then the right one
        lines += ["update %s %s %d" % (hx(k), hx(b"vX"), cur), "rev"]
        rev += 1
    elif twist == "stale" and cur is not None:
        exp_b = cur - 1 if cur - 1 > hist.INIT else cur + 7
    elif twist == "other":
        lines += ["create %s %s" % (hx(b"/r/other2"), hx(b"o2")), "rev"]
        rev += 1
    lines += [req(verb_b, b"vB", exp_b) + " txn=b1", "rev", "get %s 0" % hx(k)]
    lines += ["retry", "rev", "await retry.step"]
    # afterwards the key behaves as usual
    lines += ["get %s 0" % hx(k), "list %s %s 0 0" % (hx(b"/r/"), hx(b"/r0")), "dump"]
    return core.Case("backend", lines, {"engine": engine, "abandon": True})


def abandon_oracle(case):
    """C01, last clause, on the implementation's transcript alone: a guarded write that ran through a transaction begun
    at `prebegin` is answered 'condition failed' although the key showed the expected revision in the read before the
    transaction began AND in the read after the answer. A key's revisions only grow (C02), so the same revision at both
    ends means the key never differed from the expectation while the request was in flight."""
    from .. import hist
    last_get = {}     # key -> (line index, parsed kv or None)
    pre = None        # snapshot of last_get at the most recent `prebegin`
    pending = []      # (line index, line, out, key, exp, before)
    for i, (line, out) in enumerate(zip(case.lines, case.impl)):
        t, o = line.split(), out.split()
        if t[0] == "get" and len(o) == 3 and o[1] != "err":
            kv = hist.parse_kv(o[2])
            last_get[t[1]] = (i, kv)
            for p in [p for p in pending if p[3] == t[1]]:
                pending.remove(p)
                j, pl, po, key, exp, before = p
                if before is not None and before[1] is not None and before[1][2] == exp and kv is not None and kv[2] == exp:
                    return ("line %d: `%s` was answered 'condition failed' (%s) although key %s had revision %d - the revision "
                            "the request named - when its transaction began (line %d: %s) and still has it afterwards (line %d: %s): "
                            "the key never changed while the request was in flight; the only other writer was abandoned "
                            "and not applied" % (j + 1, pl, po, key, exp, before[0] + 1, case.impl[before[0]], i + 1, out),
                            "condition-failed-but-key-never-changed")
        elif t[0] == "prebegin":
            pre = dict(last_get)
        elif t[0] in ("update", "delete") and any(x.startswith("txn=") for x in t) and len(o) >= 2 and o[1] == "cf":
            exp = int(t[3]) if t[0] == "update" else int(t[2])
            if exp != 0 and pre is not None:
                pending.append((i, line, out, t[1], exp, pre.get(t[1])))
    return None


# ------------------------------------------------------------------ a create racing the repair of an uncertain delete
#
# /repo eb6d1d1. A delete of k lands but is answered "outcome unknown" (f=ua): k is deleted for every reader, its
# revision record is N|deleted, revision N waits in the repair queue. The repair (pseudo client R, cfg retrysteps=1:
# `retry` -> `at R iter`, `step R` = read + deal M -> `at R commit`, `step R` = compare-and-swap N|deleted -> M|deleted)
# rewrites the record while a parked create of k (c1, dealt C) is between its storage calls: put-if-absent (refused by
# the deletion record) [tikv: + read of the record, the conflict does not carry it], compare-and-swap against the record
# it saw, read again, compare-and-swap against the record as it is now, ...
#   early (the repair was dealt M BEFORE the create was dealt C, M < C): the key is deleted below C during the whole
#     request and nobody creates it -> the create must be `ok C` (KB.C01Repair.create_over_repaired_deletion_succeeds;
#     the creator before the fix answered `cf`: old_creator_cf_on_still_deleted_key);
#   late (M > C): the record the creator reads again is a deletion ABOVE its own revision; writing C over M|deleted
#     would break the per-key revision order (C02), so the create cannot succeed at C - but the key IS absent and the
#     condition "absent" did not fail: since /repo 42e5238 the answer is an ERROR (`done c1 create err other`, the
#     client tries again with a fresh revision; KB.C01Repair.create_error_when_repair_is_later). `cf` here is the
#     defect that commit repaired (KB.C01Repair.old_creator_cf_when_repair_is_later) - we had judged it "justified"
#     in the first round, an auditor showed it is not (/tmp/auditout4-U1/1): same oracle, same signature;
#   random: the three steps of R placed anywhere among c1's steps (the model says which of the two it is, or that the
#     repair found nothing to do because the create had already landed).

CVR_KEY = b"/r/a"


def create_vs_repair_case(seed, i, engine, variant):
    from .. import hist
    from ..gen import PREFIX
    r = rng_for(seed, "c01cvr/%d" % i)
    k = CVR_KEY
    rd = ["rev", "get %s 0" % hx(k)]       # a point read of k by a bystander (`rev`: its header waits for the sequencer)
    lines = [hist.cfg_line(engine, retry=0, check=5, retrysteps=1), "gated 1", "arm retry.step",
             "watch w1 %s 0" % hx(PREFIX + b"/")]
    if r.random() < 0.5:
        lines += ["create %s %s" % (hx(b"/r/other"), hx(b"o1")), "rev"]
    lines += ["create %s %s" % (hx(k), hx(b"v1")), "rev",
              "delete %s 0 f=ua" % hx(k), "rev", "await retry.step"] + rd
    start = "start c1 create %s %s" % (hx(k), hx(b"v2"))
    # c1 up to just after its refused put-if-absent (tikv: and the read of the record the conflict did not carry)
    first = ["step c1"] * (2 if engine.endswith("tikv") else 1)
    if variant == "early":
        ops = ["retry", "step R", start] + first + ["rd", "step R", "rd"] + ["step c1", "rd"] * 3
    elif variant == "late":
        ops = [start] + first + ["rd", "retry", "step R", "step R", "rd"] + ["step c1", "rd"] * 2
    else:
        # the repair's read (+ deal) goes before c1's op number a, its commit before op number b >= a: around the
        # creator's first storage calls, where the two can meet
        cl = [start] + ["step c1"] * 7
        a = r.randint(0, 3)
        b = r.randint(a, min(a + 3, len(cl)))
        ops = []
        for j, o in enumerate(cl + [None]):
            if j == a:
                ops += ["retry"] if r.random() < 0.5 or a == b else []
                ops += ["step R"] if ops[-1:] == ["retry"] else ["retry", "step R"]
            if j == b:
                ops += ["step R"]
            if o is not None:
                ops.append(o)
            if r.random() < 0.6:
                ops.append("rd")
    for o in ops:
        lines += rd if o == "rd" else [o]
    # drain: c1 to completion, the queue until it is empty, then quiescence
    lines += ["step c1"] * 4 + rd
    for _ in range(3):
        lines += ["rev", "await retry.step", "retry", "step R", "step R"]
    lines += ["rev", "await retry.step"] + rd + ["drain w1", "list %s %s 0 0" % (hx(PREFIX + b"/"), hx(PREFIX + b"0")), "dump"]
    return core.Case("backend", lines, {"engine": engine, "cvr": variant}, model_suite="sched")


def create_vs_repair_oracle(case):
    """C01, last clause, on the implementation's transcript alone: the create c1 of k was answered 'condition failed'
    at revision C although (a) every point read of k between the landed delete and the answer said 'absent' and (b) no
    event other than deletions was delivered for k after its first create. Then k was deleted at every moment of the
    request and nobody created it: the key never differed from what a create expects - whatever revisions its deletion
    record went through (below C: eb6d1d1; at or above C: 42e5238 - there the right answer is an error)."""
    from .. import hist
    k = hx(CVR_KEY)
    began = None
    ended = None
    C = None
    reads = []
    events = None
    for i, (line, out) in enumerate(zip(case.lines, case.impl)):
        t, o = line.split(), out.split()
        if t[0] == "delete" and t[1] == k and began is None:
            began = i
        if t[0] in ("start", "step") and len(t) > 1 and t[1] == "c1" and len(o) >= 4 and o[:3] == ["done", "c1", "create"]:
            ended = i
            if o[3] == "cf" and len(o) >= 5:
                C = int(o[4])
        if t[0] == "get" and t[1] == k and began is not None and ended is None and len(o) == 3 and o[1] != "err":
            reads.append((i, o[2]))
        if t[0] == "drain" and len(o) >= 3 and o[1] == "w1":
            events = []
            if o[2] != "-":
                for e in o[2].split(","):
                    typ, rev, kv = e.split(":", 2)
                    kk, _v, _r = hist.parse_kv(kv)
                    if kk == CVR_KEY:
                        events.append((typ, int(rev)))
    if C is None or events is None or not reads:
        return None
    if any(v != "-" for (_i, v) in reads):
        return None
    later = events[1:] if events and events[0][0] != "D" else events      # after the key's first create
    if any(typ != "D" for (typ, _r) in later):
        return None
    dels = [rev for (typ, rev) in later if typ == "D"]
    return ("line %d: `%s` - the create of %s (c1) was answered 'condition failed' at revision %d although the key read "
            "'absent' at every one of the %d point reads taken between its delete and that answer (lines %s), nobody "
            "created it (events for the key after its first create: %s) and the only thing that happened to it was the "
            "repair of the delete whose outcome was unknown: its revision record was rewritten from one deletion to another "
            "(deletion revisions delivered: %s; %s). The key never differed from what a create expects" % (
                ended + 1, case.lines[ended], CVR_KEY.decode(), C, len(reads), ",".join(str(i + 1) for (i, _v) in reads),
                later or "none", dels or "none",
                "all below %d" % C if all(rev < C for rev in dels) else
                "one at or above %d: the create cannot succeed at %d, but the answer to that is an error, not a failed condition" % (C, C)),
            "create-cf-on-deleted-key-after-repair")


def create_vs_repair_cases(seed, tier):
    if tier == "quick":
        return [create_vs_repair_case(seed, 0, "memkv", "early"), create_vs_repair_case(seed, 1, "tikv", "early"),
                create_vs_repair_case(seed, 2, "badger", "late"), create_vs_repair_case(seed, 3, "memkv", "late")]
    cases = [create_vs_repair_case(seed, 3 * j + e, eng, v) for j, v in enumerate(("early", "late")) for e, eng in enumerate(ENGINES)]
    cases += [create_vs_repair_case(seed, 100 + i, ENGINES[i % 3], "random") for i in range(36)]
    return cases


def reread_fault_case(engine, shape):
    """engines whose failed put-if-absent does not carry the refusing record (TiKV) re-read it with a point Get: that read fails
    once (`getfault`). Whatever the key's state, a read that did not answer says nothing about the key: the create ends with an
    error, never with `condition failed` - least of all for a key that is deleted during the whole request (sequential script)."""
    from ..gen import hx
    from .. import hist
    k = PREFIX + b"/rr"
    lines = [hist.cfg_line(engine), "create %s %s" % (hx(k), hx(b"v1")), "rev"]
    if shape == "deleted":
        lines += ["delete %s 0" % hx(k), "rev"]
    lines += ["getfault", "create %s %s" % (hx(k), hx(b"v2")), "rev", "get %s 0" % hx(k),
              "create %s %s" % (hx(k), hx(b"v3")), "rev", "get %s 0" % hx(k), "list %s %s 0 0" % (hx(PREFIX + b"/"), hx(PREFIX + b"0"))]
    return core.Case("backend", lines, {"engine": engine, "reread": shape})


def reread_fault_oracle(case):
    deleted = False
    for i, (line, out) in enumerate(zip(case.lines, case.impl)):
        t, o = line.split(), out.split()
        if t[0] == "delete" and o[1:2] == ["ok"]:
            deleted = True
        if t[0] == "create" and i > 1:
            if deleted and o[1:2] == ["cf"]:
                return ("line %d: %s -> %s: the key was deleted before the request began and nobody created it - the condition 'absent or "
                        "deleted' held all along, yet the create is answered `condition failed` (the engine read that failed is no reason)"
                        % (i + 1, line, out), "create-cf-on-deleted-key-after-failed-read")
            if o[1:2] == ["ok"]:
                deleted = False
    return None


def check(rep, tier, seed):
    n, n_clients = (30, 4) if tier == "quick" else (1500, 5)
    cases = []
    for i in range(n):
        r = rng_for(seed, "c01/%d" % i)
        keys = r.sample(KEY_POOL[:8], r.randint(1, 2))
        cases.append(sched.gen_schedule(r, n_clients if i % 2 else 3, keys, ENGINES[i % 3]))
    ex = exhaustive_pairs(seed, "memkv")
    if tier != "quick":
        ex += exhaustive_pairs(seed, "badger") + exhaustive_pairs(seed, "tikv")
    cases += ex
    stress = [stress_case(e, 8, 150 if tier == "quick" else 1500) for e in ENGINES for _ in range(1 if tier == "quick" else 4)]
    cases += stress
    # initial state "deleted and (being) compacted": a compaction stepped through its storage calls between the
    # writers' storage calls (the generator of C07's race cases, storage-call granularity)
    from . import c07
    comp = [c07.race_case(seed, 2 * i + 1, ["tikv", "badger", "memkv"][i % 3]) for i in range(12 if tier == "quick" else 300)]
    cases += comp
    # abandoned writers on tikv (rollback records): quick = the guarded update and the guarded delete, bare and behind
    # the storage-metrics wrapper, + one random shape
    ab = [abandon_case(seed, 0, "tikv", ("update", "update", 1, "none")), abandon_case(seed, 1, "metrics-tikv", ("delete", "update", 1, "none"))]
    ab += [abandon_case(seed, 2 + i, ("tikv", "metrics-tikv")[i % 2]) for i in range(1 if tier == "quick" else 300)]
    cases += ab
    # a create of a deleted key racing the repair of the delete (eb6d1d1)
    cvr = create_vs_repair_cases(seed, tier)
    cases += cvr
    rr = [reread_fault_case(e, sh) for e in ("tikv", "metrics-tikv", "memkv", "badger") for sh in ("deleted", "live")]
    cases += rr
    core.run_cases(cases)
    pick = lambda c: reread_fault_oracle(c) if c.meta.get("reread") else abandon_oracle(c) if c.meta.get("abandon") else (
        create_vs_repair_oracle(c) if c.meta.get("cvr") else (
            stress_oracle(c) if c.meta.get("stress") else (sched.oracle_c01(c) or sched.oracle_cf_justified(c))))
    # a concrete failing input of the newest clauses first
    if core.judge(rep, "C01", rr, pick):
        return
    if core.judge(rep, "C01", cvr, pick):
        return
    if core.judge(rep, "C01", ab, pick):
        return
    cases = [c for c in cases if not c.meta.get("abandon") and not c.meta.get("cvr") and not c.meta.get("reread")]
    if core.judge(rep, "C01", cases, pick):
        return
    rep.cov["exhaustive_pair_schedules"] = len(ex)
    rep.cov["abandoned_writer_scripts"] = len(ab)
    rep.cov["create_vs_repair_scripts"] = len(cvr)
    rep.assumptions += ["each engine serialises overlapping transactions on one index key (memkv store mutex, badger SSI, tikv optimistic conflict): "
                        "the gated harness applies each batch atomically at its release point",
                        "exhaustive part: all interleavings of 2 clients x 21 request-shape pairs on one live key (quick: memkv; thorough: all engines)"]
