"""C01 — conditional writes never lose an update."""
from .. import core, sched
from ..gen import KEY_POOL, hx, rng_for

ENGINES = ["memkv", "badger", "tikv"]


def exhaustive_pairs(seed, engine):
    """all interleavings of two 3-step clients on one key, for each pair of request shapes"""
    cases = []
    k = b"/r/a"
    shapes = ["create %s c1", "update %s u1 1001", "delete %s 1001", "update %s u2 0", "delete %s 0", "update %s u3 1002"]
    import random
    for a in range(len(shapes)):
        for b in range(a, len(shapes)):
            for order in sched.all_interleavings([3, 3]):
                r = random.Random(0)
                c = sched.gen_schedule(r, 2, [k], engine, reads=False, exhaustive_order=order)
                # fixed initial state: the key live at revision 1001
                lines = [c.lines[0], "gated 1", "start p1 create %s %s" % (hx(k), hx(b"init")), "step p1", "rev"]
                reqs = [shapes[a] % hx(k), shapes[b] % hx(k)]
                started = set()
                for i in order:
                    if i not in started:
                        started.add(i)
                        parts = reqs[i].split()
                        parts[2:3] = [hx(parts[2].encode())] if parts[0] != "delete" else parts[2:3]
                        lines.append("start c%d %s" % (i + 1, " ".join(parts)))
                    else:
                        lines.append("step c%d" % (i + 1))
                for i in range(2):
                    lines += ["step c%d" % (i + 1)] * 3
                lines += ["rev", "get %s 0" % hx(k), "dump"]
                cases.append(core.Case("backend", lines, {"engine": engine, "nreq": 3, "keys": [k], "pair": (a, b)}, model_suite="sched"))
    return cases


def stress_case(engine, clients, ops):
    """free-running concurrent writers (no gates): the engine's own isolation is exercised; judged by the
    chain oracle only (the schedule is the Go scheduler's, so the model is not compared)"""
    from .. import hist
    keys = [b"/r/s1", b"/r/s2"]
    lines = [hist.cfg_line(engine), "stress %d %d %s" % (clients, ops, ",".join(hx(k) for k in keys))]
    return core.Case("backend", lines, {"engine": engine, "stress": True}, compare=lambda op: op != "stress")


def stress_oracle(case):
    out = case.impl[1].split() if len(case.impl) > 1 else []
    if len(out) < 3 or out[0] != "stress":
        return None
    per_key = {}
    if out[1] != "-":
        for e in out[1].split(","):
            verb, key, rev, exp = e.split(":")
            per_key.setdefault(key, []).append((int(rev), verb, int(exp)))
    finals = dict(x.split("=") for x in out[2].split("=", 1)[1].split(","))
    for key, ws in per_key.items():
        ws.sort()
        prev = None
        for rev, verb, exp in ws:
            if verb == "create":
                if prev is not None and prev[1]:
                    return ("key %s: create at %d succeeded although the key was live at %d" % (key, rev, prev[0]), "stress-create-over-live")
            else:
                if prev is None or not prev[1] or prev[0] != exp:
                    return ("key %s: %s at %d conditioned on %d succeeded but its predecessor in the chain is %s: "
                            "two writers conditioned on the same revision both succeeded / a lost update" % (key, verb, rev, exp, prev), "stress-chain-broken")
            prev = (rev, verb != "delete")
        fin = finals.get(key)
        if fin is not None and fin != "err":
            if prev[1] and fin != str(prev[0]):
                return ("key %s: chain ends live at %d but the store shows %s" % (key, prev[0], fin), "stress-final-mismatch")
            if not prev[1] and fin != "-":
                return ("key %s: chain ends with a delete at %d but the store shows %s" % (key, prev[0], fin), "stress-final-mismatch")
    return None


def check(rep, tier, seed):
    n, n_clients = (30, 4) if tier == "quick" else (1500, 5)
    cases = []
    for i in range(n):
        r = rng_for(seed, "c01/%d" % i)
        keys = r.sample(KEY_POOL[:8], r.randint(1, 2))
        cases.append(sched.gen_schedule(r, n_clients if i % 2 else 3, keys, ENGINES[i % 3]))
    ex = exhaustive_pairs(seed, "memkv")
    if tier != "quick":
        ex += exhaustive_pairs(seed, "badger") + exhaustive_pairs(seed, "tikv")
    cases += ex
    stress = [stress_case(e, 8, 150 if tier == "quick" else 1500) for e in ENGINES for _ in range(1 if tier == "quick" else 4)]
    cases += stress
    # initial state "deleted and (being) compacted": a compaction stepped through its storage calls between the
    # writers' storage calls (the generator of C07's race cases, storage-call granularity)
    from . import c07
    comp = [c07.race_case(seed, 2 * i + 1, ["tikv", "badger", "memkv"][i % 3]) for i in range(12 if tier == "quick" else 300)]
    cases += comp
    core.run_cases(cases)
    pick = lambda c: stress_oracle(c) if c.meta.get("stress") else (sched.oracle_c01(c) or sched.oracle_cf_justified(c))
    if core.judge(rep, "C01", cases, pick):
        return
    rep.cov["exhaustive_pair_schedules"] = len(ex)
    rep.assumptions += ["each engine serialises overlapping transactions on one index key (memkv store mutex, badger SSI, tikv optimistic conflict): "
                        "the gated harness applies each batch atomically at its release point",
                        "exhaustive part: all interleavings of 2 clients x 21 request-shape pairs on one live key (quick: memkv; thorough: all engines)"]
