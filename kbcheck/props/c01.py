"""C01 — conditional writes never lose an update."""
from .. import core, sched
from ..gen import KEY_POOL, hx, rng_for

ENGINES = ["memkv", "badger", "tikv"]


def exhaustive_pairs(seed, engine):
    """all interleavings of two 3-step clients on one key, for each pair of request shapes"""
    cases = []
    k = b"/r/a"
    shapes = ["create %s c1", "update %s u1 1001", "delete %s 1001", "update %s u2 0", "delete %s 0", "update %s u3 1002"]
    import random
    for a in range(len(shapes)):
        for b in range(a, len(shapes)):
            for order in sched.all_interleavings([3, 3]):
                r = random.Random(0)
                c = sched.gen_schedule(r, 2, [k], engine, reads=False, exhaustive_order=order)
                # fixed initial state: the key live at revision 1001
                lines = [c.lines[0], "gated 1", "start p1 create %s %s" % (hx(k), hx(b"init")), "step p1", "rev"]
                reqs = [shapes[a] % hx(k), shapes[b] % hx(k)]
                started = set()
                for i in order:
                    if i not in started:
                        started.add(i)
                        parts = reqs[i].split()
                        parts[2:3] = [hx(parts[2].encode())] if parts[0] != "delete" else parts[2:3]
                        lines.append("start c%d %s" % (i + 1, " ".join(parts)))
                    else:
                        lines.append("step c%d" % (i + 1))
                for i in range(2):
                    lines += ["step c%d" % (i + 1)] * 3
                lines += ["rev", "get %s 0" % hx(k), "dump"]
                cases.append(core.Case("backend", lines, {"engine": engine, "nreq": 3, "keys": [k], "pair": (a, b)}, model_suite="sched"))
    return cases


def check(rep, tier, seed):
    n, n_clients = (30, 4) if tier == "quick" else (1500, 5)
    cases = []
    for i in range(n):
        r = rng_for(seed, "c01/%d" % i)
        keys = r.sample(KEY_POOL[:8], r.randint(1, 2))
        cases.append(sched.gen_schedule(r, n_clients if i % 2 else 3, keys, ENGINES[i % 3]))
    ex = exhaustive_pairs(seed, "memkv")
    if tier != "quick":
        ex += exhaustive_pairs(seed, "badger") + exhaustive_pairs(seed, "tikv")
    cases += ex
    core.run_cases(cases)
    for c in cases:
        rep.count_case(c)
        hit = sched.oracle_c01(c)
        if hit:
            if core.handle_oracle_hit(rep, "C01", hit[1], c, hit[0], hit[1]):
                return
            continue
        if c.diff() is not None:
            core.handle_diff(rep, "C01", "correspondence", c)
            return
    rep.cov["exhaustive_pair_schedules"] = len(ex)
    rep.assumptions += ["each engine serialises overlapping transactions on one index key (memkv store mutex, badger SSI, tikv optimistic conflict): "
                        "the gated harness applies each batch atomically at its release point",
                        "exhaustive part: all interleavings of 2 clients x 21 request-shape pairs on one live key (quick: memkv; thorough: all engines)"]
