"""C16 — an acknowledged write that a range read at "latest" does not return (known finding `acked-write-not-in-range`).

A write is acknowledged as soon as its event sits in the sequencer's slot; the revision that range reads are served at is
raised later, and never past an EARLIER write whose storage transaction has not finished (C04). While such a write is in
flight, a transaction that was dealt a later revision is acknowledged, and a LIST that begins after the acknowledgement
misses its key and carries a header below the revision the write was answered with. etcd applies writes serially: a range
after an acknowledged transaction reflects it.

Deterministic schedule (etcd suite, cfg sched=1: transactions are parked clients, one storage call per step): c1 is parked
at its commit, c2 (dealt the later revision) runs to its acknowledgement, then the reads. The Lean scheduling model
(KB.Sys + shapeTxn behind the etcd driver) answers the same lines, so the correspondence holds; the oracle judges the
implementation's transcript on its own."""
from .. import core
from ..gen import hx
from . import c16


def ack_case(engine, variant):
    cfg = c16.cfg_line(engine) + " sched=1"
    slow = c16.PREFIX + b"/slow"
    acked = c16.PREFIX + b"/acked"
    lines = [cfg, c16.render_txn(c16.t_create(c16.A, c16.V1)), "rev", "gated 1"]
    if variant == "create":
        lines += ["start c1 " + c16.render_txn(c16.t_create(slow, c16.V2))]
    else:
        lines += ["start c1 " + c16.render_txn(c16.t_update(c16.A, c16.V2, c16.INIT + 1))]
    lines += ["start c2 " + c16.render_txn(c16.t_create(acked, c16.V3)), "step c2", "step c2", "step c2",
              "echo acked", c16.render_range(acked), c16.FULL,
              "step c1", "step c1", "step c1", "rev", "echo settled", c16.render_range(acked), c16.FULL]
    return c16.EtcdCase("etcd", lines, {"engine": engine, "kind": "ack", "acked": acked, "variant": variant})


def oracle(case):
    """after `done c2 … ok=1`, every range that covers c2's key must return it (as etcd would)"""
    acked_hex = hx(case.meta["acked"])
    acked_rev = None
    for i, (line, out) in enumerate(zip(case.lines, case.impl)):
        o = out.split()
        if o[:2] == ["done", "c2"] and "ok=1" in o:
            acked_rev = int([x for x in o if x.startswith("hdr=")][0][4:])
            continue
        if acked_rev is None or not line.startswith("range "):
            continue
        if o[:2] == ["range", "err"]:
            continue
        kvs = [x for x in o if x.startswith("kvs=")]
        hdr = [x for x in o if x.startswith("hdr=")]
        if not kvs or not hdr:
            continue
        if acked_hex + ":" not in kvs[0]:
            return ("line %d: `%s` began after the create of %s had been acknowledged with revision %d, and answers without it "
                    "(header %s): %s" % (i + 1, line, case.meta["acked"], acked_rev, hdr[0][4:], out[:200]), "acked-write-not-in-range")
    return None


def check(rep, tier, prop="C16"):
    cases = [ack_case(e, v) for e in (c16.ENGINES if tier != "quick" else c16.ENGINES[:3]) for v in ("create", "update")]
    core.run_cases(cases)
    return core.judge(rep, prop, cases, oracle, tag="correspondence-ack")
