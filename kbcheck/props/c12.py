"""C12 — client-visible behaviour does not depend on the storage engine."""
import re

from .. import core, hist
from ..gen import KEY_POOL, hx, rng_for

ENGINES = ["memkv", "badger", "tikv", "metrics-badger"]


def gen_lines(seed, i, n_ops):
    r = rng_for(seed, "c12/%d" % i)
    keys = r.sample(KEY_POOL, r.randint(3, 7))
    sh = hist.Shadow()
    lines = []
    lines.append("watch w1 %s 0" % hx(b"/r/"))
    for rnd in range(3):
        # emphasise the adapter-difference cases: guarded update/delete of missing, deleted, compacted keys
        lines += hist.gen_writes(r, sh, n_ops // 3, keys, p_ok=0.5)
        lines += hist.gen_reads(r, sh, n_ops // 6, keys)
        if rnd < 2 and r.random() < 0.6:
            lines.append("compact %d" % r.randint(hist.INIT, sh.dealt))
            lines += hist.gen_writes(r, sh, 6, keys, p_ok=0.5)
        lines.append("drain w1")
    lines.append("dump")
    return lines


def check(rep, tier, seed):
    n_hist, n_ops = (14, 60) if tier == "quick" else (1500, 150)
    groups = []
    cases = []
    for i in range(n_hist):
        body = gen_lines(seed, i, n_ops)
        extra = {}
        if i % 3 == 0:
            # the tikv mock cluster split into several regions at internal keys of the key pool (other engines
            # report one partition): range results must still be the same
            import struct
            r = rng_for(seed, "c12reg/%d" % i)
            ks = r.sample(KEY_POOL, 3)
            extra["regions"] = ",".join(hx(b"\x57\xfb\x80\x8b" + k + b"$" + struct.pack(">Q", r.choice([0, 0, hist.INIT + 3]))) for k in sorted(ks))
        g = [core.Case("backend", [hist.cfg_line(e, **extra)] + body, {"engine": e}) for e in ENGINES]
        groups.append(g)
        cases += g
    # a key space spread over more than a thousand TiKV regions (the other engines report ONE partition): same answers
    from . import c13
    for i in range(1 if tier == "quick" else 3):
        many = c13.many_regions_case(seed, i)
        g = [core.ImplOnlyCase("backend", [many.lines[0] if e == "tikv" else hist.cfg_line(e)] + many.lines[1:], {"engine": e}, timeout=180)
             for e in ("memkv", "tikv", "badger")]
        groups.append(g)
        cases += g
    core.run_cases(cases)
    for g in groups:
        for c in g:
            rep.count_case(c)
        base = g[0]
        for c in g[1:]:
            # the property itself: pairwise-equal transcripts (everything after the cfg line)
            # (how many partitions an engine advertises is its own business: `streamadv pieces=<n>` is not compared)
            canon = lambda outs: [re.sub(r"^streamadv pieces=\d+", "streamadv pieces=*", o) for o in outs]
            d = core.first_diff(canon(base.impl[1:]), canon(c.impl[1:]))
            if d is not None:
                txt = "# engines %s and %s answer differently at line %d (%s):\n#   %s: %s\n#   %s: %s" % (
                    base.meta["engine"], c.meta["engine"], d + 2, c.lines[d + 1], base.meta["engine"],
                    base.impl[d + 1][:300], c.meta["engine"], c.impl[d + 1][:300])
                rep.violation(core.write_replay("C12", "engines-differ", case=c, text=txt))
                return
        for c in g:
            if c.diff() is not None:
                core.handle_diff(rep, "C12", "correspondence", c)
                return
    rep.assumptions += ["sequential request histories; TTL-dependent behaviour excluded (C17)",
                        "engines: memkv, badger, tikv mock cluster, metrics wrapper over badger"]
