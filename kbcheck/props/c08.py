"""C08 — the compaction floor only rises, and range reads below it are refused."""
from .. import core, hist
from ..gen import KEY_POOL, PREFIX, hx, rng_for

ENGINES = ["memkv", "badger", "tikv"]
EXTRA_PROP_MODULES = [("KB.Props.OrderC08", "KB.OrderC08"), ("KB.Props.C08Fault", "KB.C08Fault")]


def gen_case(seed, i, engine, n_rounds):
    r = rng_for(seed, "c08/%d" % i)
    keys = r.sample(KEY_POOL, r.randint(3, 6))
    sh = hist.Shadow()
    kw = {}
    if r.random() < 0.25:
        # skipped directories, up to the WHOLE directory of the prefix (no range is left to compact: the compaction is
        # accepted all the same, its record is written and reads below it are refused)
        kw["skipped"] = ",".join(hx(x) for x in r.choice([[PREFIX], [PREFIX + b"/"], [b"/"], [PREFIX + b"/a", PREFIX], [PREFIX + b"/a"],
                                                          [PREFIX + b"/a", PREFIX + b"/b"]]))
    lines = [hist.cfg_line(engine, **kw)]
    accepted = []
    for _ in range(n_rounds):
        lines += hist.gen_writes(r, sh, r.randint(2, 8), keys)
        x = r.random()
        if x < 0.15:
            rev = 0
        elif x < 0.3:
            rev = sh.dealt + r.randint(1, 100)          # above current
        elif x < 0.45 and accepted:
            rev = r.choice(accepted)                    # repeated
        elif x < 0.75 and accepted:
            rev = max(1, r.choice(accepted) - r.randint(1, 8))   # older than an accepted one
        else:
            rev = r.randint(hist.INIT, sh.dealt)
        lines.append("compact %d" % rev)
        accepted.append(min(rev, sh.dealt) if rev else sh.dealt)
        lines.append("floor")
        lo = max(hist.INIT - 1, min(accepted) - 3)
        for _ in range(r.randint(2, 6)):
            rr = r.randint(lo, sh.dealt)
            kind = r.random()
            a, b = hx(PREFIX + b"/"), hx(PREFIX + b"0")
            if r.random() < 0.15:
                lines.append("getfault")       # the read of the compaction record fails: the answer must be an error, not data
            if kind < 0.6:
                lines.append("list %s %s %d %d" % (a, b, rr, r.choice([0, 0, 1, 3])))
            elif kind < 0.8:
                lines.append("stream %s %s %d" % (hx(b"\x57\xfb\x80\x8b" + PREFIX + b"/$" + bytes(8)),
                                                  hx(b"\x57\xfb\x80\x8b" + PREFIX + b"0$" + bytes(8)), rr))
            else:
                lines.append("count %s %s" % (a, b))
    return core.Case("backend", lines, {"engine": engine})


def native_compact_case(seed, i, engine):
    """the native Compact handler (pkg/server/brain) over a SLOW engine (the commit of the compaction record takes 300 ms): once the handler has answered, the compaction at R is accepted - range reads, streams and counts below R
    through either way in are refused from then on. (A handler that answers before the record is written would serve them.)"""
    r = rng_for(seed, "c08n/%d" % i)
    keys = r.sample(KEY_POOL, r.randint(3, 5))
    sh = hist.Shadow()
    lines = [hist.cfg_line(engine)]
    lines += hist.gen_writes(r, sh, r.randint(6, 12), keys, p_ok=0.9)
    R = r.randint(hist.INIT + 3, sh.dealt)
    a, b = hx(PREFIX + b"/"), hx(PREFIX + b"0")
    below = R - r.randint(1, 2)
    lines += ["rev", "commitdelay 300", "ncompact %d" % R, "nrange %s %s %d 0" % (a, b, below), "list %s %s %d 3" % (a, b, below),
              "nstream %s %s %d" % (a, b, below), "floor", "nrange %s %s %d 0" % (a, b, R)]
    return core.Case("native", lines, {"engine": engine, "native_compact": R})


def native_compact_oracle(case):
    R = case.meta["native_compact"]
    seen = False
    for i, (line, out) in enumerate(zip(case.lines, case.impl)):
        t, o = line.split(), out.split()
        if t[0] == "ncompact":
            seen = o[1:2] != ["err"]
            continue
        if seen and t[0] in ("nrange", "list") and int(t[3]) < R and o[1:2] != ["err"]:
            return ("line %d: the native Compact at %d had been answered, yet `%s` (revision %s, below it) was answered with data: %s"
                    % (i + 1, R, line, t[3], out[:200]), "read-below-accepted-compaction-served")
        if seen and t[0] == "nstream" and int(t[3]) < R and " end " in out and out.split(" end ")[1].split()[1] == "-":
            return ("line %d: the native Compact at %d had been answered, yet the streamed range at revision %s ended without an error"
                    % (i + 1, R, t[3]), "read-below-accepted-compaction-served")
    return None


def oracle(case):
    floor_rec = 0      # value of the stored record
    accepted = 0       # highest accepted compaction revision
    faulted = False
    for i, (line, out) in enumerate(zip(case.lines, case.impl)):
        t, o = line.split(), out.split()
        if t[0] == "getfault":
            faulted = True
            continue
        if faulted and t[0] == "compact":
            faulted = False        # the fault met this compaction's read of the record (recfault_case)
        if faulted and t[0] in ("list", "count", "stream"):
            faulted = False
            answered = (t[0] == "stream" and " end " in out and out.split(" end ")[1].split()[1] == "-") or \
                       (t[0] != "stream" and o[1] != "err")
            if answered and accepted > 0:
                return ("line %d: %s was answered with data although the compaction record (a compaction at %d is accepted) could not be read" % (i + 1, line, accepted),
                        "floor-unreadable-answered")
            continue
        if t[0] == "compact" and len(o) == 2 and o[1].isdigit():
            accepted = max(accepted, int(o[1]))
        elif t[0] == "floor" and len(o) == 2 and o[1] != "-":
            v = int(o[1][:16], 16)
            if v < floor_rec:
                return ("line %d: stored compaction record fell from %d to %d" % (i + 1, floor_rec, v), "floor-lowered")
            floor_rec = v
        elif t[0] == "list" and o[1] != "err":
            R = int(t[3])
            if R != 0 and R < accepted:
                return ("line %d: %s answered with data although a compaction at %d was accepted" % (i + 1, line, accepted), "read-below-floor")
        elif t[0] == "stream" and len(o) > 1:
            R = int(t[3])
            if R != 0 and R < accepted and " belowfloor " not in out:
                return ("line %d: %s streamed data/no error below accepted compaction %d: %s" % (i + 1, line, accepted, out[:200]), "read-below-floor")
    return None


def recfault_case(seed, i, engine):
    """a compaction request whose read of the compaction record fails once with a transient engine error: in
    backend.setCompactRecord (`getfault`: the request ends with that error, nothing is written) or in the scanner
    (`getfault skip=1`: that range is not compacted this time). Requests OLDER than an accepted one included: the record
    keeps its value (KB.Props.C08Fault `floor_monotone_recfault`; before fix 539af5f the scanner's failed read fell through
    to the unconditional Put of the older revision), reads below the accepted floor stay refused, and a later compaction
    does the work that was skipped."""
    r = rng_for(seed, "c08rf/%d" % i)
    keys = r.sample(KEY_POOL, r.randint(3, 5))
    sh = hist.Shadow()
    lines = [hist.cfg_line(engine)]
    lines += hist.gen_writes(r, sh, r.randint(6, 12), keys, p_ok=0.9)
    a, b = hx(PREFIX + b"/"), hx(PREFIX + b"0")
    hi = r.randint(hist.INIT + 3, sh.dealt)
    lines += ["compact %d" % hi, "floor"]
    for _ in range(r.randint(1, 3)):
        x = r.random()
        if x < 0.6:
            rev = max(1, hi - r.randint(1, hi - hist.INIT))      # older than the accepted one
        elif x < 0.8:
            rev = hi
        else:
            lines += hist.gen_writes(r, sh, r.randint(1, 4), keys, p_ok=0.9)
            rev = r.randint(hi, sh.dealt)                          # newer
        lines.append("getfault" if r.random() < 0.25 else "getfault skip=1")
        lines += ["compact %d" % rev, "floor"]
        for rr in sorted(set([max(1, min(rev, hi) - 1), min(rev, hi), max(rev, hi) - 1 if max(rev, hi) > 1 else 1])):
            lines.append("list %s %s %d %d" % (a, b, rr, r.choice([0, 0, 2])))
        if r.random() < 0.5:
            lines += ["compact %d" % rev, "floor", "list %s %s %d 0" % (a, b, max(rev, hi))]
        hi = max(hi, rev)
    lines.append("list %s %s 0 0" % (a, b))
    return core.Case("backend", lines, {"engine": engine})


def race_case(seed, i, engine):
    """two compactions interleaved at their storage calls: an older request that read the record before a newer
    one was accepted must not overwrite it afterwards"""
    r = rng_for(seed, "c08race/%d" % i)
    lines = [hist.cfg_line(engine), "gated 1"]
    n = 8
    for j in range(n):
        lines += ["start p%d create %s %s" % (j + 1, hx(PREFIX + b"/k%d" % j), hx(b"v")), "step p%d" % (j + 1), "step p%d" % (j + 1), "step p%d" % (j + 1)]
    lines.append("rev")
    old, new = sorted(r.sample(range(hist.INIT + 1, hist.INIT + n + 1), 2))
    first_steps = r.randint(0, 3)
    lines += ["start k91 compact %d" % old] + ["step k91"] * first_steps
    lines += ["start k92 compact %d" % new] + ["step k92"] * 6 + ["floor"]
    lines += ["step k91"] * 6 + ["floor"]
    lines.append("list %s %s %d 0" % (hx(PREFIX + b"/"), hx(PREFIX + b"0"), old))
    return core.Case("backend", lines, {"engine": engine, "race": True}, model_suite="sched")


def overtaken_case(seed, i, engine):
    """a range read at revision r that is IN FLIGHT (stopped at one of its storage calls) while a compaction at R > r is
    accepted and carried out: it ends with an error or with the complete state at r, never with what the compaction left"""
    r = rng_for(seed, "c08ov/%d" % i)
    n = r.randint(2, 5)
    m = r.randint(1, n)
    lines = [hist.cfg_line(engine), "gated 1"]
    j = 0
    for a in range(n):
        j += 1
        lines += ["start p%d create %s %s" % (j, hx(PREFIX + b"/k%d" % a), hx(b"v"))] + ["step p%d" % j] * 3
    for a in range(m):
        j += 1
        lines += ["start p%d update %s %s %d" % (j, hx(PREFIX + b"/k%d" % a), hx(b"w"), hist.INIT + a + 1)] + ["step p%d" % j] * 3
    lines.append("rev")
    at = hist.INIT + n
    before = r.randint(0, 3)
    lines += ["start c1 %s %s %s %d 0" % ("list", hx(PREFIX + b"/"), hx(PREFIX + b"0"), at)] + ["step c1"] * before
    lines += ["start k91 compact %d" % (hist.INIT + n + r.randint(1, m))] + ["step k91"] * (8 + 2 * n) + ["floor"]
    lines += ["step c1"] * 6
    return core.Case("backend", lines, {"engine": engine, "overtaken": True, "n": n}, model_suite="sched")


def overtaken_oracle(case):
    n = case.meta["n"]
    for i, out in enumerate(case.impl):
        o = out.split()
        if o[:3] == ["done", "c1", "list"] and len(o) >= 6 and o[3] != "err":
            got = 0 if o[5] == "-" else len(o[5].split(","))
            if got != n:
                return ("line %d: a range read at a revision that holds %d keys, overtaken by a compaction above its revision, "
                        "answered %d keys: %s" % (i + 1, n, got, out), "overtaken-read-incomplete")
    return None


def race_oracle(case):
    accepted = 0
    floor_rec = 0
    for i, (line, out) in enumerate(zip(case.lines, case.impl)):
        t, o = line.split(), out.split()
        if o[:1] == ["done"] and len(o) >= 4 and o[2] == "compact" and o[3].isdigit():
            accepted = max(accepted, int(o[3]))
        if t[0] == "floor" and len(o) == 2 and o[1] != "-":
            v = int(o[1][:16], 16)
            if v < floor_rec:
                return ("line %d: stored compaction record fell from %d to %d (two interleaved compaction requests)" % (i + 1, floor_rec, v), "floor-lowered-race")
            floor_rec = v
        if t[0] == "list" and o[1] != "err" and int(t[3]) != 0 and int(t[3]) < accepted:
            return ("line %d: %s answered with data although a compaction at %d was accepted" % (i + 1, line, accepted), "read-below-floor")
    return None


def etcd_case(seed, i, engine):
    """The same refusal through the etcd-facing API (suite `etcd`, the real RPCServer): after the node's own compaction
    (`bcompact`) a Range at an explicit revision below the floor must be refused — the plain range AND the count_only
    range (which dropped the request's revision before /repo 5f2847c and answered with the current count)."""
    from . import c16
    r = rng_for(seed, "c08etcd/%d" % i)
    keys = r.sample([k for k in KEY_POOL if b"events" not in k], r.randint(3, 5))
    sh = c16.Shadow()
    lines = [c16.cfg_line(engine)]
    for _ in range(r.randint(6, 12)):
        lines += c16.gen_write_plain(r, sh, keys)
    lo, hi = PREFIX + b"/", PREFIX + b"0"
    floor = hist.INIT
    for _ in range(2):
        floor = r.randint(max(floor, hist.INIT + 2), sh.dealt)
        lines.append("bcompact %d" % floor)
        for rev in sorted(set([floor - 1, floor, max(hist.INIT + 1, floor - r.randint(2, 5)), sh.dealt, r.randint(hist.INIT + 1, sh.dealt)])):
            if rev != c16.MAGIC:
                k = r.choice(keys)
                lines += [c16.render_range(lo, hi, rev=rev), c16.render_range(lo, hi, rev=rev, flags="c"),
                          c16.render_range(lo, hi, rev=rev, limit=1),
                          # the other way etcd clients spell "this key only": still a RANGE read, refused below the floor
                          c16.render_range(k, k + b"\x00", rev=rev)]
        lines += [c16.render_range(lo, hi), c16.render_range(lo, hi, flags="c")]
        for _ in range(r.randint(2, 5)):
            lines += c16.gen_write_plain(r, sh, keys)
    return c16.EtcdCase("etcd", lines, {"engine": engine, "etcd": True})


def etcd_oracle(case):
    accepted = 0
    for i, (line, out) in enumerate(zip(case.lines, case.impl)):
        t, o = line.split(), out.split()
        if t[0] == "bcompact" and len(o) == 2 and o[1].isdigit():
            accepted = max(accepted, int(o[1]))
        elif t[0] == "range" and len(o) > 1 and o[1] != "err":
            opts = dict(x.split("=", 1) for x in t[3:])
            R = int(opts.get("rev", "0"))
            if 0 < R < accepted:
                what = "count_only range" if "c" in opts.get("flags", "") else "range"
                return ("line %d: %s -> %s: an etcd %s at revision %d was answered with data although a compaction at %d was accepted "
                        "(the same range without count_only is refused)" % (i + 1, line, out[:160], what, R, accepted),
                        "etcd-count-below-floor" if "c" in opts.get("flags", "") else "etcd-read-below-floor")
    return None


def check(rep, tier, seed):
    n_hist, n_rounds = (24, 8) if tier == "quick" else (3000, 14)
    # the refusal through the etcd-facing API first (few, cheap scripts), then the backend histories and races
    cases = [etcd_case(seed, i, ENGINES[i % len(ENGINES)]) for i in range(6 if tier == "quick" else 120)]
    cases += [gen_case(seed, i, ENGINES[i % len(ENGINES)], n_rounds) for i in range(n_hist)]
    cases += [race_case(seed, i, ENGINES[i % 3]) for i in range(12 if tier == "quick" else 1500)]
    cases += [overtaken_case(seed, i, ENGINES[i % 3]) for i in range(12 if tier == "quick" else 1500)]
    cases += [native_compact_case(seed, i, ENGINES[i % 3]) for i in range(3 if tier == "quick" else 60)]
    cases += [recfault_case(seed, i, ENGINES[i % 3]) for i in range(9 if tier == "quick" else 600)]
    core.run_cases(cases)
    pick = lambda c: (native_compact_oracle(c) if c.meta.get("native_compact") else etcd_oracle(c) if c.meta.get("etcd") else race_oracle(c) if c.meta.get("race")
                      else overtaken_oracle(c) if c.meta.get("overtaken") else oracle(c))
    plain = lambda c: not (c.meta.get("etcd") or c.meta.get("race") or c.meta.get("overtaken") or c.meta.get("native_compact"))
    if core.judge(rep, "C08", cases, pick, shrink_fn=lambda x: plain(x) and oracle(x) is not None):
        return
    rep.assumptions += ["sequential compaction requests (a single compactor, as run by the leader's periodic job)"]
