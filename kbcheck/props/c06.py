"""C06 — list-then-watch reconstructs the store."""
from .. import core, hist
from ..gen import KEY_POOL, PREFIX, hx, rng_for

EXTRA_PROP_MODULES = [("KB.Props.OrderC06", "KB.OrderC06"), ("KB.Props.OrderC09", "KB.OrderC09")]

ENGINES = ["memkv", "badger", "tikv"]


def gen_case(seed, i, engine):
    r = rng_for(seed, "c06/%d" % i)
    keys = r.sample(KEY_POOL, r.randint(3, 8))
    sh = hist.Shadow()
    a, b = PREFIX + b"/", PREFIX + b"0"
    sub = r.choice([PREFIX + b"/", PREFIX + b"/a", PREFIX + b"/a/", PREFIX + b"/events/"])
    lines = [hist.cfg_line(engine)]
    lines += hist.gen_writes(r, sh, r.randint(0, 15), keys, p_ok=0.75)
    lines += ["rev", "echo base", "list %s %s 0 0" % (hx(a), hx(b))]
    R = sh.dealt
    lines.append("watch w1 %s %d" % (hx(sub), R + 1))
    for _ in range(r.randint(1, 3)):
        lines += hist.gen_writes(r, sh, r.randint(1, 10), keys, p_ok=0.7)
        if r.random() < 0.3:
            lines.append("compact %d" % r.randint(hist.INIT, sh.dealt))
        lines += ["rev", "drain w1", "echo later", "list %s %s 0 0" % (hx(a), hx(b))]
    return core.Case("backend", lines, {"engine": engine, "sub": sub})


def wrap_case(seed, i, engine):
    """a SMALL event cache that has wrapped around (more events than slots, not a multiple of the slot count), a List, further
    writes, and only then the watch from the List's revision + 1: the catch-up comes out of the OLDER part of the wrapped ring"""
    r = rng_for(seed, "c06w/%d" % i)
    cap = r.randint(5, 12)
    keys = r.sample(KEY_POOL, r.randint(3, 6))
    sh = hist.Shadow()
    a, b = PREFIX + b"/", PREFIX + b"0"
    lines = [hist.cfg_line(engine, cache=cap)]
    lines += hist.gen_writes(r, sh, cap + r.randint(1, cap - 1), keys, p_ok=1.0)
    lines += ["rev", "echo base", "list %s %s 0 0" % (hx(a), hx(b))]
    R = sh.dealt
    lines += hist.gen_writes(r, sh, r.randint(1, cap - 2), keys, p_ok=1.0)
    lines += ["rev", "watch w1 %s %d" % (hx(a), R + 1)]
    lines += hist.gen_writes(r, sh, r.randint(0, 3), keys, p_ok=1.0)
    lines += ["rev", "drain w1", "echo later", "list %s %s 0 0" % (hx(a), hx(b))]
    return core.Case("backend", lines, {"engine": engine, "sub": a, "wrap": cap})


def shared_batch_case(seed, i, engine):
    """List, a watch from its revision + 1 on one directory AND a second watcher on another directory, then a burst of writes
    across both directories that reaches the hub as ONE batch (the write in front of it is held inside the sequencer while the
    others fill their slots): the hub hands every subscriber the same batch - the first watcher's List + events must still
    give the later List, whatever the other watcher did with the shared batch. Judged on the implementation's transcript
    only (the sequential model has no parked sequencer)."""
    r = rng_for(seed, "c06s/%d" % i)
    keys = r.sample(KEY_POOL, r.randint(3, 6))
    sh = hist.Shadow()
    a, b = PREFIX + b"/", PREFIX + b"0"
    sub, other = r.choice([(PREFIX + b"/a/", PREFIX + b"/b/"), (PREFIX + b"/b/", PREFIX + b"/a/"), (PREFIX + b"/events/", PREFIX + b"/a/"),
                           (PREFIX + b"/a/", PREFIX + b"/")])
    lines = [hist.cfg_line(engine)]
    lines += hist.gen_writes(r, sh, r.randint(0, 6), keys, p_ok=0.9)
    lines += ["rev", "echo base", "list %s %s 0 0" % (hx(a), hx(b))]
    R = sh.dealt
    ws = [("w1", sub, R + 1), ("w2", other, r.choice([0, R + 1]))]
    if r.random() < 0.5:
        ws.reverse()
    for w, pfx, start in ws:
        lines.append("watch %s %s %d" % (w, hx(pfx), start))
    n = 0
    for _ in range(r.randint(1, 3)):
        sg = r.choice(["seq.before_cache", "seq.before_broadcast"])
        n += 1
        lines += ["arm " + sg, "create %s %s" % (hx(other + b"h%d" % n), hx(b"v")), "await " + sg]
        for _ in range(r.randint(2, 6)):
            n += 1
            d = r.choice([sub, other, sub])
            lines.append("create %s %s" % (hx(d + b"n%d" % n), hx(r.choice([b"v1", b"v2", b"x" * 20]))))
        lines += ["disarm " + sg, "sync"]
    lines += ["rev", "drain w2", "drain w1", "echo later", "list %s %s 0 0" % (hx(a), hx(b))]
    return core.Case("backend", lines, {"engine": engine, "sub": sub, "shared": True}, compare=lambda op: False)


def future_case(seed, i, engine):
    """a range read at an explicit revision R ABOVE the committed one - R is the header of an acknowledged write while a
    write with a smaller revision is still on its way to the engine (parked at its commit) - then a watch from R+1, the
    slow write lands, more writes, and a later range read"""
    r = rng_for(seed, "c06f/%d" % i)
    a, b = PREFIX + b"/", PREFIX + b"0"
    lines = [hist.cfg_line(engine), "gated 1"]
    n0 = r.randint(0, 2)
    j = 0
    for x in range(n0):
        j += 1
        lines += ["start p%d create %s %s" % (j, hx(PREFIX + b"/a%d" % x), hx(b"v"))] + ["step p%d" % j] * 3
    slow = j + 1
    lines += ["start p%d create %s %s" % (slow, hx(PREFIX + b"/slow"), hx(b"v"))]       # parked at its commit
    j += 1
    n1 = r.randint(1, 2)
    for x in range(n1):
        j += 1
        lines += ["start p%d create %s %s" % (j, hx(PREFIX + b"/b%d" % x), hx(b"v"))] + ["step p%d" % j] * 3
    R = hist.INIT + j            # the revision the last acknowledged write was answered with
    lines += ["echo base", "list %s %s %d 0" % (hx(a), hx(b), R), "watch w1 %s %d" % (hx(a), R + 1)]
    lines += ["step p%d" % slow] * 3
    j += 1
    lines += ["start p%d create %s %s" % (j, hx(PREFIX + b"/c"), hx(b"v"))] + ["step p%d" % j] * 3
    lines += ["rev", "drain w1", "echo later", "list %s %s 0 0" % (hx(a), hx(b))]
    return core.Case("backend", lines, {"engine": engine, "sub": a, "future": True}, model_suite="sched")


def oracle(case):
    hit = oracle0(case)
    if hit and case.meta.get("future") and getattr(case, "_mismatch", None):
        # the listed finding is exactly this: the ONLY difference is the write that was in flight (its revision is not
        # above R); anything else is reported under its own name
        snap, cur = case._mismatch
        slow = PREFIX + b"/slow"
        if not (slow in cur and slow not in snap and dict((k, v) for k, v in cur.items() if k != slow) == snap):
            return hit
        return (hit[0] + " [the first range read was served at a revision above the committed one while a write with a "
                "smaller revision was in flight]", "list-above-committed-misses-inflight-write")
    return hit


def oracle0(case):
    sub = case.meta["sub"]
    snap = None
    mode = None
    refused = False
    for i, (line, out) in enumerate(zip(case.lines, case.impl)):
        t, o = line.split(), out.split()
        if t[0] == "echo":
            mode = t[1]
        elif t[0] == "watch" and o[2] != "ok":
            refused = True
        elif t[0] == "list" and o[1] != "err":
            kvs = hist.parse_kvs(o[3] if len(o) > 3 else "-")
            cur = dict((k, (v, rev)) for k, v, rev in kvs if k.startswith(sub))
            if mode == "base":
                snap = cur
            elif mode == "later" and snap is not None and not refused:
                if cur != snap:
                    case._mismatch = (dict(snap), dict(cur))
                    return ("line %d: applying the watch events to the earlier List gives %s, the later List (header %s) gives %s" % (
                        i + 1, snap, o[1], cur), "reconstruction-mismatch")
        elif t[0] == "drain" and t[1] != "w1":
            continue        # another watcher's stream (shared_batch_case): not part of this client's reconstruction
        elif t[0] == "drain" and len(o) >= 3 and snap is not None:
            if o[2] != "-":
                for e in o[2].split(","):
                    typ, rev, kv = e.split(":", 2)
                    k, v, kr = hist.parse_kv(kv)
                    if typ == "D":
                        snap.pop(k, None)
                    else:
                        snap[k] = (v, int(rev))
            if o[3] == "closed=1":
                refused = True
    return None if case.meta.get("future") or case.meta.get("shared") else hist.check_reads(case)


def check(rep, tier, seed):
    n = 36 if tier == "quick" else 6000
    cases = [gen_case(seed, i, ENGINES[i % 3]) for i in range(n)]
    cases += [future_case(seed, i, ENGINES[i % 3]) for i in range(3 if tier == "quick" else 60)]
    cases += [wrap_case(seed, i, ENGINES[i % 3]) for i in range(9 if tier == "quick" else 300)]
    cases += [shared_batch_case(seed, i, ENGINES[i % 3]) for i in range(9 if tier == "quick" else 600)]
    core.run_cases(cases)
    if core.judge(rep, "C06", cases, oracle):
        return
    rep.assumptions += ["sequential writers around the reader/watcher (interleavings: C04 for the header revision, C05 for delivery)",
                        "non-tombstone values"]
