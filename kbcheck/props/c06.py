"""C06 — list-then-watch reconstructs the store."""
from .. import core, hist
from ..gen import KEY_POOL, PREFIX, hx, rng_for

EXTRA_PROP_MODULES = [("KB.Props.OrderC06", "KB.OrderC06"), ("KB.Props.OrderC09", "KB.OrderC09")]

ENGINES = ["memkv", "badger", "tikv"]


def gen_case(seed, i, engine):
    r = rng_for(seed, "c06/%d" % i)
    keys = r.sample(KEY_POOL, r.randint(3, 8))
    sh = hist.Shadow()
    a, b = PREFIX + b"/", PREFIX + b"0"
    sub = r.choice([PREFIX + b"/", PREFIX + b"/a", PREFIX + b"/a/", PREFIX + b"/events/"])
    lines = [hist.cfg_line(engine)]
    lines += hist.gen_writes(r, sh, r.randint(0, 15), keys, p_ok=0.75)
    lines += ["rev", "echo base", "list %s %s 0 0" % (hx(a), hx(b))]
    R = sh.dealt
    lines.append("watch w1 %s %d" % (hx(sub), R + 1))
    for _ in range(r.randint(1, 3)):
        lines += hist.gen_writes(r, sh, r.randint(1, 10), keys, p_ok=0.7)
        if r.random() < 0.3:
            lines.append("compact %d" % r.randint(hist.INIT, sh.dealt))
        lines += ["rev", "drain w1", "echo later", "list %s %s 0 0" % (hx(a), hx(b))]
    return core.Case("backend", lines, {"engine": engine, "sub": sub})


def oracle(case):
    sub = case.meta["sub"]
    snap = None
    mode = None
    refused = False
    for i, (line, out) in enumerate(zip(case.lines, case.impl)):
        t, o = line.split(), out.split()
        if t[0] == "echo":
            mode = t[1]
        elif t[0] == "watch" and o[2] != "ok":
            refused = True
        elif t[0] == "list" and o[1] != "err":
            kvs = hist.parse_kvs(o[3] if len(o) > 3 else "-")
            cur = dict((k, (v, rev)) for k, v, rev in kvs if k.startswith(sub))
            if mode == "base":
                snap = cur
            elif mode == "later" and snap is not None and not refused:
                if cur != snap:
                    return ("line %d: applying the watch events to the earlier List gives %s, the later List (header %s) gives %s" % (
                        i + 1, snap, o[1], cur), "reconstruction-mismatch")
        elif t[0] == "drain" and len(o) >= 3 and snap is not None:
            if o[2] != "-":
                for e in o[2].split(","):
                    typ, rev, kv = e.split(":", 2)
                    k, v, kr = hist.parse_kv(kv)
                    if typ == "D":
                        snap.pop(k, None)
                    else:
                        snap[k] = (v, int(rev))
            if o[3] == "closed=1":
                refused = True
    return hist.check_reads(case)


def check(rep, tier, seed):
    n = 36 if tier == "quick" else 6000
    cases = [gen_case(seed, i, ENGINES[i % 3]) for i in range(n)]
    core.run_cases(cases)
    for c in cases:
        rep.count_case(c)
        hit = oracle(c)
        if hit:
            if core.handle_oracle_hit(rep, "C06", hit[1], c, hit[0], hit[1]):
                return
            continue
        if c.diff() is not None:
            core.handle_diff(rep, "C06", "correspondence", c)
            return
    rep.assumptions += ["sequential writers around the reader/watcher (interleavings: C04 for the header revision, C05 for delivery)",
                        "non-tombstone values"]
