"""C15 — revisions keep increasing across leader changes and restarts.

Proof side besides KB.Props.C15 / OrderC15: KB.Props.C18Cas (EXTRA_PROP_MODULES) — the revision allocator tso.go at
atomic-instruction granularity (`deal_after_commit_is_above`: a Deal after a finished Commit r returns > r, under every
interleaving), tied to the source by regenerated shape facts; dynamic cross-check kbcheck/tsocas.py runs last."""
from .. import core, hist
from ..gen import KEY_POOL, PREFIX, hx, rng_for

EXTRA_PROP_MODULES = [("KB.Props.OrderC15", "KB.OrderC15"), ("KB.Props.C18Cas", "KB.C18Cas")]

ENGINES = ["memkv", "badger", "tikv"]

# the real Campaign() of a restarted node: plain; with the engine-timestamp read after its lock write failing (tso; mtso = the
# same behind the storage-metrics wrapper of --enable-storage-metrics, the failure injected below the wrapper) or slow; over
# a store whose election record is missing (fresh: the Create path) or was RELEASED by the previous leader (released: an
# Update over a holder-less record); slowget = the started-leading callback consults the lock before the renew loop's first
# poll has re-read the record (the order of the two goroutines on a networked engine)
# burst: the old leader hands out thousands of revisions within a fraction of a second before the take-over (the engine clock
# must have advanced by more than the revisions issued: nanoseconds / PD's 18 logical bits per millisecond do, milliseconds would not)
# followed: the node that takes over had served reads as a follower (its revision syncer adopted an OLDER read revision of the previous
# leader): the election timestamp is installed all the same
REAL_OPTS = {"followed": " followed=%d" % (hist.INIT + 1), "burst": "", "plain": "", "tso": " f=tso", "mtso": " f=tso", "fresh": " fresh=1 f=tsoslow", "slow": " f=tsoslow", "tso2": " f=tso2",
             "released": " released=1 slowget=1", "freshslow": " fresh=1 slowget=1", "plainslow": " slowget=1"}
REALS = [None, "plain", "tso", "fresh", "slow", "tso2", "released", "freshslow", "mtso", "plainslow", "burst", "followed"]


def gen_case(seed, i, engine, heavy_failures, real=None):
    r = rng_for(seed, "c15/%d" % i)
    keys = r.sample([k for k in KEY_POOL if b"events" not in k][:8], r.randint(2, 4))
    sh = hist.Shadow()
    # the first leader starts as every leader does: from the engine timestamp of its lock write
    lines = [hist.cfg_line(("metrics-" + engine) if real == "mtso" else engine, init=0), "restart id=n1"]
    # old leader's history; with heavy_failures most requests fail (they consume revisions without touching the engine)
    n = r.randint(3, 25)
    lines += hist.gen_writes(r, sh, n, keys, p_ok=0.15 if heavy_failures else 0.85, sync=False)
    if heavy_failures:
        for _ in range(r.randint(5, 30)):
            lines.append("delete %s 0" % hx(PREFIX + b"/nonexistent"))
    if real == "burst":
        # (keys outside the listed range: the lists of the script stay small)
        lines.append("bulk %d %s %s" % (r.randint(5000, 9000), hx(b"/q/b"), hx(b"v")))
    lines.append("settle")
    lines += ["get %s 0" % hx(k) for k in keys]
    lines.append("list %s %s 0 0" % (hx(PREFIX + b"/"), hx(PREFIX + b"0")))
    lines.append("echo before-restart")
    # the take-over: either the harness's transcription of leader.go, or (real) the REAL
    # leader.NewLeaderElection(...).Campaign() of a restarted node, optionally with the engine-timestamp read
    # after its lock write failing
    lines.append("restart" if real is None else "campaign id=n1" + REAL_OPTS[real])
    lines.append("list %s %s 0 0" % (hx(PREFIX + b"/"), hx(PREFIX + b"0")))
    for k in keys:
        lines.append("get %s 0" % hx(k))
    # guarded writes on existing keys keep working (conditioned on the revision a fresh Get reports)
    lines.append("echo probe")
    for k in keys:
        lines += ["reupdate %s %s" % (hx(k), hx(b"after-restart")), "settle", "get %s 0" % hx(k)]
    lines += ["create %s %s" % (hx(PREFIX + b"/fresh"), hx(b"x")), "settle", "list %s %s 0 0" % (hx(PREFIX + b"/"), hx(PREFIX + b"0"))]
    return core.Case("backend", lines, {"engine": engine, "keys": keys},
                     compare=lambda op: False)   # wall-clock / TSO revisions: judged by the oracle only


def sync_order_case(i):
    """a follower applies two leader-revision answers out of order (R2, then R1 < R2), is then elected and installs
    its election timestamp T: the next revision it hands out is T+1 (compared with the model line by line)"""
    eng = ENGINES[i % 3]
    k = [hx(PREFIX + b"/s%d" % j) for j in range(4)]
    lines = [hist.cfg_line(eng), "create %s 7631" % k[0], "create %s 7632" % k[1], "rev",
             "lowrev 900", "setrev %d" % (2000 + i), "setrev %d" % (1500 + i), "setrev %d" % (3000 + i),
             "create %s 7633" % k[2], "rev", "update %s 7634 1001" % k[0], "rev", "get %s 0" % k[0],
             "list %s %s 0 0" % (hx(PREFIX + b"/"), hx(PREFIX + b"0"))]
    return core.Case("backend", lines, {"engine": eng, "syncorder": True})


def oracle(case):
    if case.meta.get("syncorder"):
        for i, (line, out) in enumerate(zip(case.lines, case.impl)):
            t, o = line.split(), out.split()
            if t[0] == "create" and i > 6 and len(o) >= 3 and o[1] == "ok" and int(o[2]) <= 3000:
                return ("after installing its election timestamp the node handed out revision %s, not above it: %s" % (o[2], out), "revision-regress")
        return None
    phase = 0
    before_list = None
    max_rev_seen = 0
    for i, (line, out) in enumerate(zip(case.lines, case.impl)):
        t, o = line.split(), out.split()
        if t[0] in ("restart", "campaign"):
            phase += 1
            if t[0] == "campaign":
                if o[1] == "timeout":
                    return ("the restarted node never became leader: %s -> %s" % (line, out), "no-leader")
                if "early=1" in o:
                    return ("the node reported itself leader before it installed its start revision (writes are gated by that flag only): %s" % out,
                            "leader-before-start-revision")
                if "sets=1" not in o:
                    return ("the start revision was installed %s times: %s" % ([x for x in o if x.startswith("sets=")], out), "start-revision-sets")
            if phase == 2 and o[1] == "lag":
                return ("new leader starts at engine timestamp %s although the store holds revision %s" % (o[2], o[3]),
                        "clock-lag-" + case.meta["engine"])
            continue
        if phase == 1:
            if t[0] == "list" and o[1] != "err":
                before_list = o[3] if len(o) > 3 else "-"
            # revisions present in the store = mod revisions of data the old leader returns / acknowledged writes
            if t[0] in ("get", "list") and o[1] != "err":
                for kv in hist.parse_kvs(o[-1]) if o[-1] != "-" and "@" in o[-1] else []:
                    max_rev_seen = max(max_rev_seen, kv[2])
            if t[0] in ("create", "update", "delete") and o[1] == "ok":
                max_rev_seen = max(max_rev_seen, int(o[2]))
            if t[0] == "bulk" and len(o) == 2 and o[1].isdigit():
                max_rev_seen = max(max_rev_seen, int(o[1]))
        if phase == 2:
            if t[0] == "list" and before_list is not None and o[1] != "err":
                got = o[3] if len(o) > 3 else "-"
                if got != before_list:
                    return ("after the restart List shows %s, before it showed %s" % (got[:300], before_list[:300]), "data-lost-after-restart")
                before_list = None
            if t[0] == "reupdate" and o[1] not in ("ok", "nokey"):
                return ("guarded update on a pre-existing key fails on the new leader: %s -> %s" % (line, out), "guarded-write-fails")
            if t[0] in ("reupdate", "create") and o[1] == "ok" and int(o[2]) <= max_rev_seen:
                return ("the new leader handed out revision %s, not above revision %d present in the store" % (o[2], max_rev_seen), "revision-regress")
    return None


def check_main(rep, tier, seed):
    n = 3 * len(REALS) if tier == "quick" else 1200
    cases = [gen_case(seed, i, ENGINES[i % 3], heavy_failures=(i % 2 == 0), real=REALS[(i // 3) % len(REALS)]) for i in range(n)]
    cases += [sync_order_case(i) for i in range(3)]
    core.run_cases(cases)
    for c in cases:
        rep.count_case(c)
        hit = oracle(c)
        if hit:
            if core.handle_oracle_hit(rep, "C15", hit[1], c, hit[0], hit[1]):
                return
            continue
        if c.meta.get("syncorder") and c.diff() is not None:
            core.handle_diff(rep, "C15", "correspondence-sync-order", c)
            return
    rep.assumptions += ["memkv (wall-clock ns) and tikv (PD TSO): the engine clock advanced by more than the number of revisions issued — checked on every run, not proved",
                        "the new leader is initialised (a) by the harness's transcription of leader.go: lock Get/Create/Update, Describe(), SetCurrentRevision(timestamp); "
                        "(b) in two thirds of the cases by the real leader.NewLeaderElection(...).Campaign() (client-go elector) of a node restarted under the "
                        "identity that holds the lock, half of those with the engine-timestamp read after its lock write failing",
                        "revisions after a restart are wall-clock/TSO values: the model is compared only up to the restart, the rest is judged by the oracle"]


def check(rep, tier, seed):
    """the property's own suites, then (when they found nothing) the dynamic cross-check of the revision allocator whose
    atomic-instruction proof is KB.Props.C18Cas (EXTRA_PROP_MODULES): supporting evidence, kbcheck/tsocas.py"""
    from .. import tsocas
    res = check_main(rep, tier, seed)
    if not rep.violations:
        tsocas.run_dynamic(rep, "C15", seed)
    return res
