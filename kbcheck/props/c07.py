"""C07 — compaction never changes what a read at or above the compaction revision sees."""
from .. import core, hist
from ..gen import KEY_POOL, PREFIX, hx, rng_for

ENGINES = ["memkv", "badger", "tikv"]

EXTRA_PROP_MODULES = [("KB.Props.C07Race", "KB.C07Race"), ("KB.Props.C07Par", "KB.C07Par"), ("KB.Props.C07Ranges", "KB.C07Ranges"), ("KB.Props.OrderC07", "KB.OrderC07"),
                      ("KB.Props.C07Expire", "KB.C07Expire"), ("KB.Props.C07Atomic", "KB.C07Atomic")]


def probe_reads(keys, revs):
    lines = []
    for R in revs:
        for k in keys:
            lines.append("get %s %d" % (hx(k), R))
        lines.append("list %s %s %d 0" % (hx(PREFIX + b"/"), hx(PREFIX + b"0"), R))
    return lines


SKIP_KEYS = [PREFIX + b"/a/x", PREFIX + b"/a/b/y", PREFIX + b"/a/b/c/z", PREFIX + b"/c/k", PREFIX + b"/d", PREFIX + b"/a-b", PREFIX + b"/ab/k",
             PREFIX + b"/a-b/k", PREFIX + b"/a.b/k", PREFIX + b"/c-old/k"]
# skipped-prefix configurations: single, nested, duplicate, sibling pairs, foreign (outside the key prefix), parent of the
# key prefix, with and without trailing slash
SKIP_CONFIGS = [
    [PREFIX + b"/a"], [PREFIX + b"/a", PREFIX + b"/a/b"], [PREFIX + b"/a/b", PREFIX + b"/a"], [PREFIX + b"/a", PREFIX + b"/a"],
    [PREFIX + b"/a/b", PREFIX + b"/c"], [PREFIX + b"2/x"], [PREFIX + b"2/x", PREFIX + b"/a"], [b"/q", PREFIX + b"/c"],
    [PREFIX + b"/a/", PREFIX + b"/a/b/c"], [PREFIX + b"/a/b", PREFIX + b"/a/b", PREFIX + b"/a"], [PREFIX + b"/a/b/c", PREFIX + b"/a", PREFIX + b"/c", PREFIX + b"/a/b"],
    # siblings of which one is a string prefix of the other and the longer one goes on with a byte below '/': as STRINGS /a < /a-b,
    # as DIRECTORIES /a-b/ < /a/ (the order the subtraction of the skipped directories has to use)
    [PREFIX + b"/a", PREFIX + b"/a-b"], [PREFIX + b"/a-b", PREFIX + b"/a"], [PREFIX + b"/a", PREFIX + b"/a.b", PREFIX + b"/a-b"],
    [PREFIX + b"/c", PREFIX + b"/c-old", PREFIX + b"/a/b"],
]


DIRECTED_KEYS = [PREFIX + b"/da", PREFIX + b"/db"]
# the delete calls of the compaction of `directed_history` at its last revision, in order (checked against the delete-call
# log of every directed case): the compare-and-delete of the deleted key's revision record, then plain deletes only
DIRECTED_CALLS = ["delcur", "del", "del", "del", "del", "del"]


def directed_history(sh):
    """/da: created, updated, deleted (revision record flagged, two versions under the deletion marker);
    /db: created, updated twice (live, two superseded versions)"""
    ka, kb = DIRECTED_KEYS
    lines = []

    def w(kind, key, val=None):
        exp = sh.keys[key][0] if kind != "create" else 0
        if kind == "create":
            lines.append("create %s %s" % (hx(key), hx(val)))
        elif kind == "update":
            lines.append("update %s %s %d" % (hx(key), hx(val), exp))
        else:
            lines.append("delete %s %d" % (hx(key), exp))
        assert sh.write(kind, key, exp)
        lines.append("rev")
    w("create", ka, b"a1"); w("update", ka, b"a2"); w("delete", ka)
    w("create", kb, b"b1"); w("update", kb, b"b2"); w("update", kb, b"b3")
    return lines


def gen_case(seed, i, engine, mask, skipped=None, keys=None, directed=False):
    """history -> probes -> compact R with mask -> same probes -> writes on every key -> reads"""
    r = rng_for(seed, "c07/%d" % i)
    keys = keys or r.sample([k for k in KEY_POOL if b"events" not in k], r.randint(2, 5))
    sh = hist.Shadow()
    kw = {}
    if skipped:
        kw["skipped"] = ",".join(hx(s) for s in skipped)
    lines = [hist.cfg_line(engine, **kw)]
    if directed:
        keys = DIRECTED_KEYS
        lines += directed_history(sh)
        R = sh.dealt
    else:
        lines += hist.gen_writes(r, sh, r.randint(8, 30), keys, p_ok=0.85)
        R = r.randint(hist.INIT + 1, sh.dealt)
    revs = sorted(set([R, sh.dealt, 0] + [r.randint(R, sh.dealt) for _ in range(2)]))
    probes = probe_reads(keys, revs)
    lines += ["echo before"] + probes + ["dump"]
    lines.append("compact %d %s" % (R, mask))
    lines += ["echo after"] + probes + ["dump", "dellog"]
    # every key stays writable with normal semantics
    lines.append("echo writable")
    lines += hist.gen_writes(r, sh, 2 * len(keys), keys, p_ok=0.8)
    lines += hist.gen_reads(r, sh, 6, keys, lo_rev=R)
    # a second, complete pass: convergence after a failed/interrupted one
    lines.append("compact %d" % R)
    lines += ["echo after2"] + probe_reads(keys, [sh.dealt, 0])
    return core.Case("backend", lines, {"engine": engine, "R": R, "skipped": skipped or [], "mask": mask, "directed": directed})


def iterfault_case(seed, i, engine, n, directed):
    """the compaction scan's iterator fails its n-th Next once (a transient error): the worker backs off and scans its partition
    AGAIN. The second attempt must finish what the first began - deletes are redone or found done, never skipped: reads at or
    above R are unchanged and a deleted key does not come back. (The delete-call log is not compared: on TiKV the second attempt
    reads the snapshot of the first and re-issues its deletes.)"""
    c = gen_case(seed, i, engine, "", directed=directed)
    k = [j for j, l in enumerate(c.lines) if l.startswith("compact ")][0]
    c.lines.insert(k, "iterfault %d" % n)
    c.meta["mask"] = "iterfault %d" % n
    c.meta["iterfault"] = n
    c.compare = lambda op: op != "dellog"
    return c


def cas_hits(case):
    """the kinds (`del` = plain delete, `delcur` = compare-and-delete) of the delete calls of the masked compaction that
    were made to fail with an error of the failed-condition class, from the implementation's delete-call log"""
    mask = case.meta.get("mask", "")
    if not mask.startswith("m=") or ":c" not in mask:
        return []
    log = next((out for line, out in zip(case.lines, case.impl) if line == "dellog"), "dellog -")
    calls = [] if log.split()[1:] in ([], ["-"]) else log.split()[1].split(",")
    idx = [int(e.split(":")[0]) for e in mask[2:].split(",") if e.endswith(":c")]
    return [calls[j].split(":")[0] for j in idx if j < len(calls)]


def oracle(case):
    """reads before == reads after (same probe lines), on the implementation's transcript"""
    sect = {}
    cur = None
    for line, out in zip(case.lines, case.impl):
        if line.startswith("echo "):
            cur = line.split()[1]
            sect[cur] = []
            continue
        if line.startswith("compact"):
            cur = None
        if cur in ("before", "after") and line.split()[0] in ("get", "list"):
            sect[cur].append((line, out))
    for (l1, o1), (l2, o2) in zip(sect.get("before", []), sect.get("after", [])):
        t1, t2 = o1.split(), o2.split()
        # compare the data, not the header revision (header = committed revision may not move)
        d1 = t1[2:] if t1[0] == "get" else t1[2:]
        d2 = t2[2:] if t2[0] == "get" else t2[2:]
        if l1 == l2 and d1 != d2:
            return ("read `%s` returned %s before compaction at %d and %s after" % (l1, o1[:200], case.meta["R"], o2[:200]), "read-changed")
    # keys outside the configured compaction ranges are not touched
    dumps = [out for line, out in zip(case.lines, case.impl) if line == "dump"]
    if len(dumps) >= 2 and case.meta["skipped"]:
        def outside(d):
            res = []
            for kv in d.split()[1].split(","):
                k = bytes.fromhex(kv.split("=")[0])
                raw = k[4:-9] if k.startswith(b"\x57\xfb\x80\x8b") else k
                if any(raw.startswith(s if s.endswith(b"/") else s + b"/") for s in case.meta["skipped"]):
                    res.append(kv)
            return res
        if outside(dumps[0]) != outside(dumps[1]):
            return ("records under a skipped prefix changed during compaction", "skipped-touched")
    hit = hist.check_reads(case)
    return hit


# ---------------------------------------------------------------- the ttl pass that rides on the compaction (tikv)

TTL_MS = 1000
EXP_EVENT_KEYS = [PREFIX + b"/events/e1", PREFIX + b"/events/e2", PREFIX + b"/events/ns/e3"]
EXP_OTHER_KEYS = [PREFIX + b"/a", PREFIX + b"/pods/events/p1", PREFIX + b"/eventsx/q", PREFIX + b"/z"]
EXP_MASKS = ["", "m=0:c", "m=1:f", "m=2:c", "crash=1", "crash=3", "m=0:f,2:c", "m=1:c,3:c"]


def expiry_case(seed, i, mask, directed=False):
    """engine without native ttl, events ttl 1 s, model clock = the script's sleeps: history on Events and other keys ->
    compaction (takes the mark) -> sleep past the ttl -> more changes (some Events are renewed: their newest change is
    younger than the ttl; the others expire in the next pass) -> probes at revisions >= R -> `compact R` with a mask (its
    timeout revision is the mark) -> the same probes. C07's oracle restricted to the keys that are NOT expired: every
    key that is not an Event, every Event whose newest acknowledged change is above the mark. Directed: an Event created
    before the mark and updated at c, a non-event write at b < c, R = b: the version the ttl pass must not take is what
    reads in [b, c) return."""
    r = rng_for(seed, "c07exp/%d" % i)
    ev = r.sample(EXP_EVENT_KEYS, 2)
    ot = r.sample(EXP_OTHER_KEYS, 2)
    keys = ev + ot
    sh = hist.Shadow()
    vals = [b"v1", b"v2", b"v3", b"x" * 40]
    lines = [hist.cfg_line("tikv", eventsttl=1, ttl=TTL_MS)]
    if directed:
        def w(kind, key, val=None):
            exp = sh.keys[key][0] if kind != "create" else 0
            lines.append("create %s %s" % (hx(key), hx(val)) if kind == "create" else "update %s %s %d" % (hx(key), hx(val), exp))
            assert sh.write(kind, key, exp)
            lines.append("rev")
        w("create", ev[0], b"v1"); w("create", ot[0], b"n1"); w("create", ev[1], b"old")
        if r.random() < 0.5:
            w("update", ev[0], b"v1b")
        lines += ["compact 0", "sleep 1300"]
        w("update", ot[0], b"n2")
        R = sh.dealt
        w("update", ev[0], b"v2")
        if r.random() < 0.5:
            w("update", ot[0], b"n3")
    else:
        lines += hist.gen_writes(r, sh, r.randint(6, 14), keys, values=vals, p_ok=0.9)
        lines += ["compact 0", "sleep 1300"]
        mark = sh.dealt
        renewed = [ev[0]] + r.sample(ot, r.randint(1, 2)) + ([ev[1]] if r.random() < 0.25 else [])
        lines += hist.gen_writes(r, sh, r.randint(3, 8), renewed, values=vals, p_ok=0.9)
        R = r.randint(mark, sh.dealt)
    revs = sorted(set([R, sh.dealt, 0] + [r.randint(R, sh.dealt) for _ in range(2)]))
    probes = probe_reads(keys, revs)
    lines += ["echo before"] + probes + ["dump"]
    lines.append(("compact %d %s" % (R, mask)).strip())
    lines += ["echo after"] + probes + ["dump", "dellog"]
    # a second, complete pass (no mark is old enough for it: plain compaction)
    lines.append("compact %d" % R)
    lines += ["echo after2"] + probe_reads(keys, [sh.dealt, 0])
    return core.Case("backend", lines, {"engine": "tikv", "R": R, "skipped": [], "mask": mask, "expiry": True, "events": ev})


def expiry_oracle(case):
    """reads before == reads after on every key that is not expired, on the implementation's transcript"""
    mark = None
    newest = {}          # key -> revision of its newest acknowledged change (before the probes)
    sect, cur = {"before": [], "after": []}, None
    for line, out in zip(case.lines, case.impl):
        t, o = line.split(), out.split()
        if not t or not o:
            continue
        if t[0] == "echo":
            cur = t[1]
            continue
        if t[0] == "compact":
            if mark is None and len(o) == 2 and o[1].isdigit():
                mark = int(o[1])
            if cur == "before":
                cur = None
        if cur is None and not sect["after"] and t[0] in ("create", "update", "delete") and o[1] == "ok":
            newest[hist.unhx(t[1])] = int(o[2])
        if cur in ("before", "after") and t[0] in ("get", "list"):
            sect[cur].append((line, out))
    if mark is None:
        return None

    def spared(k):
        return not k.startswith(PREFIX + b"/events/") or newest.get(k, 0) > mark

    for (l1, o1), (l2, o2) in zip(sect["before"], sect["after"]):
        t, t1, t2 = l1.split(), o1.split(), o2.split()
        if l1 != l2 or "err" in t1[:2] or "err" in t2[:2]:
            if l1 == l2 and t1[:2] != t2[:2] and ("err" in t1[:2]) != ("err" in t2[:2]):
                return ("read `%s` answered %s before the compaction at %d and %s after" % (l1, o1[:120], case.meta["R"], o2[:120]), "read-changed")
            continue
        if t[0] == "get":
            if not spared(hist.unhx(t[1])):
                continue
            d1, d2 = t1[2:], t2[2:]
        else:
            d1 = [kv for kv in hist.parse_kvs(t1[3]) if spared(kv[0])] + t1[2:3]
            d2 = [kv for kv in hist.parse_kvs(t2[3]) if spared(kv[0])] + t2[2:3]
        if d1 != d2:
            return ("read `%s` returned %s before the compaction at %d (ttl pass with timeout revision %d) and %s after, on keys "
                    "that are not expired (not an Event, or newest change above %d)" % (l1, o1[:200], case.meta["R"], mark, o2[:200], mark), "read-changed")
    return None


# ---------------------------------------------------------------- a ttl pass interrupted around the expiry batch (tikv)

MAGIC = bytes.fromhex("57fb808b")
INT_SIGNATURE = "interrupted-ttl-pass-left-unwritable-key"
INT_OFFSETS = [1, 0, 2, -1]            # position of the fault / crash point relative to the expiry batch's call index
INT_KINDS = ["crash", "f", "c"]


def is_expiry_call(call):
    """an entry of the delete-call log that removes the revision record of an Event through the ttl pass: the expiry batch
    `expire:<ik>+<n>` - or, when the model follows a source tree that still makes per-record calls (regenerated fact
    `expiryCallShape`), the compare-and-delete `delcur:<ik>` of the revision record of a key under <prefix>/events/"""
    kind, _, rest = call.partition(":")
    ik = bytes.fromhex(rest.split("+")[0])
    return kind == "expire" or (kind == "delcur" and ik.startswith(MAGIC + PREFIX + b"/events/") and ik.endswith(b"\x24" + bytes(8)))


def expiry_batch_calls(lines):
    """the delete-call log of the LAST compaction of `lines` run unmasked on the model; the indexes of its expiry
    batches (`expire:<ik>+<n>`)"""
    out = core.run_model("backend", lines + ["dellog"])
    log = out[-1].split() if out else []
    calls = [] if len(log) < 2 or log[0] != "dellog" or log[1] == "-" else log[1].split(",")
    return calls, [j for j, c in enumerate(calls) if is_expiry_call(c)]


def interrupted_expiry_case(seed, i, engine="tikv", offset=None, kind=None):
    """The ttl pass (engine without native ttl: events ttl 1 s, model clock = the script's sleeps) is interrupted around
    the ONE write batch that removes an expired Event: expired Event `e` with 2..3 versions next to non-event keys (one of
    them deleted, so that the ordinary rules make calls before and after the batch) and, every other history, a second
    Event; mark, sleep past the ttl, non-event writes; `compact R` with a crash point (`crash=n`: the calls from n on are
    not executed) or a failing call (`m=n:f` plain error / `m=n:c` failed-condition error) at every position n around the
    batch's call index (taken from the model's delete-call log). Afterwards: reads at latest and at R, the store dump,
    and for EVERY key: read it; a guarded update naming the revision of its newest acknowledged change; read it; a
    create; read it. Oracle (`interrupted_oracle`, on the implementation's transcript): a key that READS present at
    revision r accepts the update naming r; a key that reads absent accepts the create; an Event has either no record
    left or its revision record together with the version it names."""
    r = rng_for(seed, "c07int/%d" % i)
    ev = [EXP_EVENT_KEYS[i % 3]] + ([EXP_EVENT_KEYS[(i + 1) % 3]] if i % 2 == 1 else [])
    low, high = PREFIX + b"/a", PREFIX + b"/z"          # sort below / above the events directory
    other = [low, high, r.choice([PREFIX + b"/pods/events/p1", PREFIX + b"/eventsx/q"])]
    keys = sorted(ev + other)
    lines = [hist.cfg_line(engine, eventsttl=1, ttl=TTL_MS)]
    rev = hist.INIT
    newest = {}                    # key -> revision of its newest acknowledged change (None: deleted)

    def w(kind, key, val=b""):
        nonlocal rev
        rev += 1
        if kind == "create":
            lines.append("create %s %s" % (hx(key), hx(val)))
        elif kind == "update":
            lines.append("update %s %s %d" % (hx(key), hx(val), newest[key]))
        else:
            lines.append("delete %s %d" % (hx(key), newest[key]))
        lines.append("rev")
        newest[key] = None if kind == "delete" else rev

    for k in keys:
        w("create", k, b"v1")
    for k in ev:
        for n in range(r.randint(1, 2)):
            w("update", k, b"e%d" % (n + 2))
    w("update", high, b"h2")
    w("update", low, b"l2")
    w(r.choice(["delete", "update"]), low, b"l3")           # a deletion marker / superseded versions below the Events
    if r.random() < 0.5:
        w("delete", high)
    # the mark; every Event's newest change is older than the ttl from here on. Two histories out of three: the marking
    # compaction dies before its first delete (every superseded version and deletion marker is still there for the pass
    # under test: several versions in the batch, ordinary calls before and after it)
    lines += ["compact 0 crash=0" if i % 3 != 2 else "compact 0", "sleep 1300"]
    w("update", other[2], b"n2")
    if len(ev) == 2 and r.random() < 0.5:
        w("update", ev[1], b"young")                         # the second Event is renewed: it must stay
    R = rev
    calls, batches = expiry_batch_calls(lines + ["compact %d" % R])
    if not batches:
        raise RuntimeError("C07: the compaction that should expire %s makes no expiry batch (calls: %s)" % (ev[0], calls))
    j = batches[(i // 12) % len(batches)]
    offset = INT_OFFSETS[i % 4] if offset is None else offset
    kind = INT_KINDS[(i // 4) % 3] if kind is None else kind
    n = max(0, j + offset)
    mask = "crash=%d" % n if kind == "crash" else "m=%d:%s" % (n, kind)
    lo, hi = hx(PREFIX + b"/"), hx(PREFIX + b"0")
    probes = []
    for q in (0, R):
        probes += ["get %s %d" % (hx(k), q) for k in keys] + ["list %s %s %d 0" % (lo, hi, q)]
    lines += ["echo before"] + probes
    if kind == "iter":
        # the snapshot read that collects the versions for the batch fails (its 1st / 2nd Next): `expireEvent` returns
        # that error without having made a call. Not in the model (its masks are on calls): judged by the oracle only
        ik = bytes.fromhex(calls[j].split(":")[1].split("+")[0])
        mask = "iterfault %d from=%s" % (1 + i % 2, hx(ik[:-8] + (1).to_bytes(8, "big")))
        lines += [mask, "compact %d" % R, "iterfault 0"]
    else:
        lines.append("compact %d %s" % (R, mask))
    lines += ["echo after"] + probes + ["dump", "dellog"]
    for k in keys:
        lines += ["echo key %s" % hx(k), "get %s 0" % hx(k)]
        if newest[k] is not None:
            lines += ["update %s %s %d" % (hx(k), hx(b"upd"), newest[k]), "rev", "get %s 0" % hx(k)]
        lines += ["create %s %s" % (hx(k), hx(b"again")), "rev", "get %s 0" % hx(k)]
    lines += ["echo end", "list %s %s 0 0" % (lo, hi), "dump"]
    return core.Case("backend", lines, {"engine": engine, "interrupted": True, "R": R, "mask": mask, "events": ev, "keys": keys,
                                       "newest": {hx(k): v for k, v in newest.items()}, "batch_call": j, "calls": calls,
                                       "skipped": [], "iter": kind == "iter"},
                     compare=(lambda op: False) if kind == "iter" else None)


def interrupted_vacuity(prop, cases):
    """the injected failures must have been what the scripts say"""
    for c in cases:
        if not c.meta.get("interrupted"):
            continue
        log = next((out for line, out in zip(c.lines, c.impl) if line == "dellog"), "dellog -")
        made = [] if log.split()[1:] in ([], ["-"]) else log.split()[1].split(",")
        want = c.meta["calls"][c.meta["batch_call"]]
        if c.meta["iter"]:
            if want in made:
                raise RuntimeError("%s: the iterator fault of `%s` did not hit the version iteration of the expiry batch: %s was made"
                                   % (prop, c.meta["mask"], want))
        elif c.meta["mask"].startswith("m=") and int(c.meta["mask"][2:].split(":")[0]) == c.meta["batch_call"] and want not in made:
            raise RuntimeError("%s: `%s` was aimed at the expiry batch %s, which was not made (%s)" % (prop, c.meta["mask"], want, made))


def interrupted_oracle(case):
    ev = case.meta["events"]
    sect, cur = {"before": [], "after": []}, None
    key, dump_hit = None, None
    per_key = {}
    for i, (line, out) in enumerate(zip(case.lines, case.impl)):
        t, o = line.split(), out.split()
        if not t or not o:
            continue
        if t[0] == "echo":
            cur = t[1]
            if cur == "key":
                key = hist.unhx(t[2])
                per_key[key] = []
            continue
        if t[0] == "compact" and cur == "before":
            cur = None
        if cur in ("before", "after") and t[0] in ("get", "list"):
            sect[cur].append((i, line, out))
        if cur == "key" and t[0] in ("get", "update", "create"):
            per_key[key].append((i, line, out))
        if t[0] == "dump" and cur == "after" and len(o) == 2 and o[1] != "-":
            # an Event has no record left, or its revision record together with the version it names
            for e in ev:
                revs, named = [], None
                for kv in o[1].split(","):
                    ik, val = (bytes.fromhex(x) if x != "-" else b"" for x in kv.split("="))
                    if ik.startswith(MAGIC) and ik[4:-9] == e:
                        revs.append(int.from_bytes(ik[-8:], "big"))
                        if revs[-1] == 0:
                            named = int.from_bytes(val[:8], "big")
                if revs and (0 not in revs or named not in revs) and dump_hit is None:
                    dump_hit = ("line %d: after `%s` the Event %s has the records %s (0 = revision record%s): the interrupted ttl pass "
                            "removed it in part - %s" % (i + 1, next((l for l in case.lines if l.startswith("compact") and (case.meta.get("mask") or "") in l), "the compaction"), e,
                                                         sorted(revs), ", naming revision %d" % named if named else "",
                                                         "versions without their revision record" if 0 not in revs else
                                                         "a revision record without the version it names"), INT_SIGNATURE)
    # reads at revisions >= R of the keys that are not Events: unchanged (C07)
    for (i, l1, o1), (_, l2, o2) in zip(sect["before"], sect["after"]):
        t, t1, t2 = l1.split(), o1.split(), o2.split()
        if l1 != l2 or "err" in t1[:2] or "err" in t2[:2]:
            continue
        if t[0] == "get":
            if hist.unhx(t[1]) in ev:
                continue
            d1, d2 = t1[2:], t2[2:]
        else:
            d1 = [kv for kv in hist.parse_kvs(t1[3]) if kv[0] not in ev]
            d2 = [kv for kv in hist.parse_kvs(t2[3]) if kv[0] not in ev]
        if d1 != d2:
            return ("read `%s` returned %s before the interrupted compaction at %d and %s after, on keys that are not Events"
                    % (l1, o1[:200], case.meta["R"], o2[:200]), "read-changed")
    # every key stays writable with normal semantics
    for k, st in per_key.items():
        present = None
        for (i, line, out) in st:
            t, o = line.split(), out.split()
            if t[0] == "get":
                if len(o) < 3 or o[1] == "err":
                    return ("line %d: %s -> %s after the interrupted ttl pass" % (i + 1, line, out), INT_SIGNATURE)
                kv = hist.parse_kv(o[2])
                present = kv[2] if kv else None
            elif t[0] == "update":
                if present is not None and int(t[3]) == present and o[1] != "ok":
                    return ("line %d: after `compact %d %s` the key %s READS present at revision %d, yet the guarded update naming "
                            "%d is refused (%s -> %s): the interrupted ttl pass left versions without their revision record"
                            % (i + 1, case.meta["R"], case.meta["mask"], k, present, present, line, out), INT_SIGNATURE)
                if present is not None and int(t[3]) != present:
                    return ("line %d: %s reads present at revision %d, its newest acknowledged change is %s"
                            % (i + 1, k, present, t[3]), "read-changed")
                if present is None and k not in ev:
                    return ("line %d: %s is not an Event, its newest acknowledged change is at %s, and it reads absent after the "
                            "compaction" % (i + 1, k, t[3]), "non-event-key-removed")
            elif t[0] == "create":
                if present is None and o[1] != "ok":
                    return ("line %d: after `compact %d %s` the key %s READS absent, yet it cannot be created (%s -> %s): the "
                            "interrupted ttl pass left a part of it behind" % (i + 1, case.meta["R"], case.meta["mask"], k, line, out),
                            INT_SIGNATURE)
                if present is not None and o[1] == "ok":
                    return ("line %d: %s reads present at revision %d and was created again (%s -> %s)" % (i + 1, k, present, line, out),
                            INT_SIGNATURE)
    return dump_hit


def interrupted_cases(seed, tier):
    if tier == "quick":
        # right after the batch (crash / failing call), at the batch (failed condition), before it; one below the metrics wrapper
        return [interrupted_expiry_case(seed, 0, "tikv", 1, "crash"), interrupted_expiry_case(seed, 1, "tikv", 1, "f"),
                interrupted_expiry_case(seed, 2, "metrics-tikv", 0, "c"), interrupted_expiry_case(seed, 3, "tikv", 0, "crash"),
                interrupted_expiry_case(seed, 4, "tikv", 0, "iter")]
    return [interrupted_expiry_case(seed, i, "metrics-tikv" if i % 5 == 4 else "tikv") for i in range(60)] + \
        [interrupted_expiry_case(seed, 100 + i, ["tikv", "metrics-tikv"][i % 2], 0, "iter") for i in range(6)]


def race_case(seed, i, engine):
    """a compaction stepped through its storage calls, racing client writes to the keys being compacted
    (re-creates of deleted keys, updates, deletes) — on tikv the scan reads the snapshot of the timestamp taken
    before the floor check, so writes in between are invisible to it while its deletes hit the live store"""
    from .. import sched
    r = rng_for(seed, "c07race/%d" % i)
    keys = [PREFIX + b"/a", PREFIX + b"/b", PREFIX + b"/c"]
    lines = [hist.cfg_line(engine), "gated 1"]
    n = 0
    rev = hist.INIT
    state = {}
    for k in keys:
        kind = r.choice(["live", "deleted", "deleted", "updated"])
        n += 1; rev += 1
        lines += ["start p%d create %s %s" % (n, hx(k), hx(b"v0")), "step p%d" % n, "step p%d" % n, "step p%d" % n]
        state[k] = rev
        if kind == "deleted":
            n += 1; rev += 1
            lines += ["start p%d delete %s 0" % (n, hx(k)), "step p%d" % n, "step p%d" % n]
            state[k] = None
        elif kind == "updated":
            n += 1; rev += 1
            lines += ["start p%d update %s %s %d" % (n, hx(k), hx(b"v1"), state[k]), "step p%d" % n, "step p%d" % n]
            state[k] = rev
    lines += ["rev", "start k91 compact 0"]
    stop_at = r.randint(0, 4)          # how far the compaction gets before the writers run
    lines += ["step k91"] * stop_at
    m = 0
    writers = []
    for k in r.sample(keys, r.randint(1, 3)):
        m += 1
        if state[k] is None:
            req = "create %s %s" % (hx(k), hx(b"again"))
        else:
            req = r.choice(["update %s %s %d" % (hx(k), hx(b"v2"), state[k]), "delete %s 0" % hx(k)])
        writers.append(m)
        lines.append("start c%d %s" % (m, req))
    if i % 2 == 0:
        # request granularity: every writer runs to completion between two compactor calls
        for m in writers:
            lines += ["step c%d" % m] * 5
        lines += ["rev"] + ["step k91"] * 5 + ["rev"]
    else:
        # storage-call granularity: the compactor's calls fall BETWEEN a writer's read and its commit, and between
        # the two commits of a create over a deleted key
        pool = ["step c%d" % m for m in writers for _ in range(5)] + ["step k91"] * 5
        r.shuffle(pool)
        lines += pool + ["rev"] + ["step c%d" % m for m in writers for _ in range(3)] + ["step k91"] * 3 + ["rev"]
    # afterwards every key keeps normal semantics: creating a live key must fail, a deleted one can be created
    for j, k in enumerate(keys):
        lines += ["rev", "get %s 0" % hx(k), "start d%d create %s %s" % (60 + j, hx(k), hx(b"dup"))] + ["step d%d" % (60 + j)] * 4
    lines += ["rev"] + ["get %s 0" % hx(k) for k in keys] + ["dump"]
    return core.Case("backend", lines, {"engine": engine, "race": True}, model_suite="sched")


def masks(tier, r):
    ms = ["", "m=0:f", "m=1:f", "m=2:f", "m=3:f", "m=5:f", "crash=0", "crash=1", "crash=2", "crash=3", "crash=4",
          "m=0:f,2:f", "crash=6"]
    # `<i>:c`: the i-th delete call — a plain delete (compactKey) or a compare-and-delete (compactCurrent), whichever
    # it is in that history — fails with storage.ErrCASFailed (TiKV reports a write conflict that way, for both)
    ms += ["m=0:c", "m=1:c", "m=2:c", "m=3:c", "m=5:c", "m=0:c,2:c", "m=1:c,2:f", "m=0:f,1:c,3:c"]
    # `u`: the engine answers a delete call "outcome unknown" and the delete did not land
    ms += ["m=0:u", "m=1:u", "m=2:u", "m=3:u", "m=4:u", "m=1:u,2:c", "m=0:u,3:u"]
    if tier != "quick":
        ms += ["m=%d:f" % i for i in range(4, 14)] + ["crash=%d" % i for i in range(5, 14)] + ["m=1:f,4:f", "m=0:f,3:f"]
        ms += ["m=%d:c" % i for i in range(4, 14)] + ["m=1:c,4:c", "m=0:c,3:f", "m=2:c,3:c,4:c", "m=0:c,1:c,2:c,3:c,4:c,5:c,6:c,7:c"]
    return ms


# the directed history has six delete calls of known kinds: each of them failing with a failed-condition error alone,
# pairs across the two keys and both kinds, and all of them
DIRECTED_MASKS = ["m=%d:c" % i for i in range(6)] + ["m=0:c,1:c", "m=1:c,4:c", "m=0:c,2:c,5:f", "m=0:c,1:c,2:c,3:c,4:c,5:c"] + \
    ["m=%d:u" % i for i in range(6)] + ["m=0:u,1:u", "m=1:u,4:c"]
ALL_ENGINES = ENGINES + ["metrics-memkv", "metrics-tikv"]   # metrics-: failures injected BELOW the storage-metrics wrapper


def check(rep, tier, seed):
    n_hist = 8 if tier == "quick" else 120
    r = rng_for(seed, "c07")
    # a ttl pass interrupted around the expiry batch (theorems KB.C07Atomic); first, so that its concrete failing input is
    # what a violation names
    cases = interrupted_cases(seed, tier)
    for i in range(n_hist):
        for m in masks(tier, r):
            eng = ALL_ENGINES[(i + len(m)) % 5]
            sk = [PREFIX + b"/a"] if i % 4 == 3 else None
            cases.append(gen_case(seed, i, eng, m, sk))
    # skipped-prefix configurations (the property quantifies over all of them)
    for j, sk in enumerate(SKIP_CONFIGS if tier == "quick" else SKIP_CONFIGS * 6):
        cases.append(gen_case(seed, 900 + j, ENGINES[j % 3], "", sk, keys=SKIP_KEYS))
    # failed-condition errors on delete calls of KNOWN kind (compare-and-delete: call 0; plain deletes: calls 1..5),
    # every mask on every engine
    for j, m in enumerate(DIRECTED_MASKS):
        for e, eng in enumerate(ALL_ENGINES):
            cases.append(gen_case(seed, 700 + 10 * j + e, eng, m, directed=True))
    # a transient iterator error in the middle of the compaction scan (the worker retries its partition), at every position
    for n in range(1, 9 if tier == "quick" else 14):
        for e, eng in enumerate(ENGINES):
            cases.append(iterfault_case(seed, 800 + 10 * n + e, eng, n, directed=True))
            if tier != "quick" or (n + e) % 3 == 0:
                cases.append(iterfault_case(seed, 1800 + 10 * n + e, eng, n, directed=False))
    # the same property with the ttl pass riding on the compaction (engine without native ttl): theorems KB.C07Expire
    for j in range(6 if tier == "quick" else 60):
        cases.append(expiry_case(seed, j, EXP_MASKS[(j // 2) % len(EXP_MASKS)] if j >= 2 else ["", "m=0:c"][j], directed=j % 3 != 2))
    races = [race_case(seed, i, ["tikv", "tikv", "memkv", "badger"][i % 4]) for i in range(24 if tier == "quick" else 600)]
    cases += races
    core.run_cases(cases)
    # what the CAS-class entries of the masks actually hit, per engine and kind of delete call
    hits = {}
    for c in cases:
        if c.meta.get("race") or c.meta.get("expiry") or c.meta.get("interrupted"):
            continue
        for kind in cas_hits(c):
            key = "%s/%s" % (c.meta["engine"], kind)
            hits[key] = hits.get(key, 0) + 1
    rep.cov["cas_class_delete_failures"] = dict(sorted(hits.items()))
    from .. import sched
    pick = lambda c: (sched.oracle_c01(c) or sched.oracle_cf_justified(c) or hist.check_reads(c)) if c.meta.get("race") else \
        interrupted_oracle(c) if c.meta.get("interrupted") else expiry_oracle(c) if c.meta.get("expiry") else oracle(c)
    if core.judge(rep, "C07", cases, pick):
        return
    interrupted_vacuity("C07", cases)
    # the injected failures must have been what the masks say (the check would be vacuous otherwise)
    for c in cases:
        if c.meta.get("directed") and not c.meta.get("iterfault"):
            log = next(out for line, out in zip(c.lines, c.impl) if line == "dellog")
            kinds = [x.split(":")[0] for x in log.split()[1].split(",")] if log != "dellog -" else []
            if kinds != DIRECTED_CALLS[:len(kinds)] or not kinds:
                raise RuntimeError("C07: directed history made the delete calls %s, expected a prefix of %s" % (kinds, DIRECTED_CALLS))
    missing = ["%s/%s" % (e, k) for e in ALL_ENGINES for k in ("del", "delcur") if not hits.get("%s/%s" % (e, k))]
    if missing:
        raise RuntimeError("C07: no failed-condition error was injected on: %s" % ", ".join(missing))
    rep.cov["exhaustive"] = False
    rep.assumptions += ["C07/C07Race/C07Par: compaction without a timeout revision; with the ttl pass riding on it (tikv) the property is "
                        "proved and checked for the keys that are not expired (KB.C07Expire, expiry_case: events ttl 1 s, model clock = "
                        "the script's sleeps); what expiry may remove is C17's",
                        "delete failures / crash points injected at the KvStorage boundary; one partition per compaction range when a mask is given"]
