"""C20 — no request can crash or wedge a node, with production metrics enabled.

This module decides the METRICS part (`check_metrics`); further request-level checks (malformed request
streams against the etcd / native handlers) are meant to be added as further functions called from `check`.

Metrics part:
  proof      KB.Props.C20Metrics (+ KB.Props.C20): `metric_labels_consistent`, `metric_names_valid`,
             `metric_sites_resolved`, `metric_dynamic_label_sites` by `decide` over the table regenerated from
             /repo by kbextract (every Emit* call site), `metric_sanitised_label_sites`, the generic
             `consistent_no_panic`, and `metrics_never_panic` (arbitrary client data; one explicit hypothesis
             `LeaderAddressValid` for the seven operator-data sites) / `metrics_never_panic_request_paths`.
  tie        (1) every site of the table is replayed on the REAL client (`kbharness -suite metrics`), once per
             rotation of each group of sites sharing a formatted name (so every site is the first emitter of
             its name once, and every site follows every other first emitter), one fresh process per rotation
             (the Prometheus default registry is process wide); oracle: a PANIC is a failing input.
             (2) the Lean model of the client (`KB.Metrics.emit`, executed with `#eval`) and the real client
             are run on the same table replays and on seeded random emission sequences (colliding names,
             kinds, label sets, invalid identifiers, invalid UTF-8 values) and compared up to the first panic.
             (3) every label whose VALUE is unsanitised run-time data is replayed with a value that is not valid
             UTF-8 (client and model panic); such a label must be the leader address (operator data), anything else
             is a failing input. The request-controlled label (the key of a Watch, sanitised since 9c4361e) is
             exercised end to end on a real backend with keys that are not valid UTF-8: the node must survive
             (before the fix the process died).
"""
import os
import re
import subprocess

from .. import core
from ..gen import rng_for

EXTRA_PROP_MODULES = [("KB.Props.C20Metrics", "KB.C20Metrics"), ("KB.Props.C20Requests", "KB.C20Requests"),
                      ("KB.Props.C20Native", "KB.C20Native"), ("KB.Props.OrderC19", "KB.OrderC19"),
                      ("KB.Props.C04Window", "KB.C04Window"),
                      # the window is tied to tso.Deal by the shape facts of KB.C18Cas (source_matches_lts)
                      ("KB.Props.C18Cas", "KB.C18Cas")]

TABLE = os.path.join(core.LEAN, "KB", "Generated", "MetricSites.lean")
SITE_RE = re.compile(
    r'\{ file := "(?P<file>[^"]*)", line := (?P<line>\d+), kind := \.(?P<kind>\w+), name := b!"(?P<name>[^"]*)", '
    r'labelNames := \[(?P<labels>[^\]]*)\], dynamicLabels := \[(?P<dyn>[^\]]*)\], sanitisedLabels := \[(?P<san>[^\]]*)\], '
    r'spreads := (?P<spreads>true|false), '
    r'via := "(?P<via>(?:[^"\\]|\\.)*)", dynamicValues := "(?P<dynv>(?:[^"\\]|\\.)*)" \}')

# label values that are run-time data. REQUEST_CONTROLLED ones are client bytes (a defect if they reach the Prometheus
# client unsanitised); ASSUMED ones come from the operator's configuration / the election record.
REQUEST_CONTROLLED = {("watcherhub.events_chan.closed", "prefix")}
ASSUMED_VALID = {"addr", "leader"}


def _names(s):
    return re.findall(r'b!"([^"]*)"', s)


def parse_table():
    text = open(TABLE).read()
    body = text[text.index("def metricSites"):text.index("def metricGlobalLabels")]
    sites = []
    n_lines = 0
    for ln in body.splitlines():
        if ln.strip().startswith("{ file"):
            n_lines += 1
            m = SITE_RE.search(ln)
            if m:
                d = m.groupdict()
                sites.append({"file": d["file"], "line": int(d["line"]), "kind": d["kind"], "name": d["name"],
                              "labels": _names(d["labels"]), "dyn": _names(d["dyn"]), "san": _names(d["san"]), "via": d["via"]})
    gl = re.search(r"def metricGlobalLabels : List \(List Name\) := \[(.*)\]\n", text)
    globals_ = [_names(x) for x in re.findall(r"\[([^\[\]]*)\]", gl.group(1))] if gl else []
    unresolved = re.search(r"def metricSitesUnresolved : List String := \[(.*)\]\n", text)
    dead = re.search(r"def metricSitesDead : List String := \[(.*)\]\n", text)
    calls = re.search(r"def metricCallSites : Nat := (\d+)", text)
    return {"sites": sites, "parsed_all": n_lines == len(sites), "globals": globals_,
            "unresolved": re.findall(r'"((?:[^"\\]|\\.)*)"', unresolved.group(1)) if unresolved else ["<missing>"],
            "dead": re.findall(r'"((?:[^"\\]|\\.)*)"', dead.group(1)) if dead else [],
            "call_sites": int(calls.group(1)) if calls else 0}


def fmt_name(n):
    return n.replace(".", "_")


def emit_line(s, bad=None):
    ln = "emit %s %s %s" % (s["kind"], s["name"], ",".join(s["labels"]) or "-")
    if bad:
        ln += " bad=" + bad
    return ln


def rotations(sites):
    """Scripts such that every site is the FIRST emitter of its formatted name in one of them."""
    groups = {}
    for s in sites:
        groups.setdefault(fmt_name(s["name"]), []).append(s)
    width = max([len(g) for g in groups.values()] or [1])
    scripts = []
    for k in range(width):
        order = []
        for name in sorted(groups):
            g = groups[name]
            r = k % len(g)
            order += g[r:] + g[:r]
        scripts.append(order)
    return scripts, groups


def lean_model_outcomes(scripts, tag):
    """Execute KB.Metrics.replay on each (global_labels, [(kind, name, labels, bad_label)]) script."""
    def nm(x):
        return 'b!"%s"' % x

    src = ["import KB.Metrics", "open KB KB.Metrics"]
    for glob, ems in scripts:
        items = []
        for kind, name, labels, bad in ems:
            items.append("mkEmission .%s %s [%s] %s" % (kind, nm(name), ", ".join(nm(l) for l in labels),
                                                        "false" if bad else "true"))
        src.append('#eval IO.println (String.intercalate " " (replay [%s] Registry.empty [%s]))' % (
            ", ".join(nm(g) for g in glob), ", ".join(items)))
    path = os.path.join(core.BUILD, "c20_model_%s.lean" % tag)
    with open(path, "w") as f:
        f.write("\n".join(src) + "\n")
    rc, out = core.sh(["lake", "env", "lean", path], cwd=core.LEAN, timeout=600)
    lines = [l for l in out.splitlines() if l.strip() != ""]
    if rc != 0 or len(lines) != len(scripts):
        raise RuntimeError("Lean model run failed (rc=%d):\n%s" % (rc, out[-2000:]))
    return [l.split() for l in lines]


def impl_outcomes(glob, ems):
    lines = ["cfg global=%s" % (",".join(glob) or "-")]
    for kind, name, labels, bad in ems:
        ln = "emit %s %s %s" % (kind, name, ",".join(labels) or "-")
        if bad:
            ln += " bad=" + bad
        lines.append(ln)
    out = core.run_impl("metrics", lines, timeout=120)
    return lines, out


def upto_first_panic(outs):
    res = []
    for o in outs:
        res.append(o)
        if o == "PANIC":
            break
    return res


NAME_POOL = ["a.b", "a_b", "a.b.c", "a.b_c", "a_b.c", "x", "x.y", "1x", "go_threads", "ok:name", "bad-name", "z.latency"]
LABEL_POOL = ["m", "n", "le", "method", "__r", "cluster", "m"]


def random_script(r):
    """Mostly consistent re-emissions of a few names (as a correct program does), with occasional deviations:
    another kind / label set for a name, a colliding formatted name, an invalid identifier, a bad value."""
    glob = r.choice([[], ["cluster"], ["cluster"], ["g1", "g2"]])
    canon = {}
    ems = []
    hostile = r.random() < 0.5
    for _ in range(r.randint(3, 14)):
        name = r.choice(NAME_POOL if (hostile and r.random() < 0.3) else ["a.b", "a.b.c", "x", "x.y", "z.latency"])
        if name not in canon or (hostile and r.random() < 0.15):
            kind = r.choice(["counter", "gauge", "histogram"])
            k = r.choice([0, 1, 1, 2, 2, 3])
            pool = LABEL_POOL if (hostile and r.random() < 0.3) else ["m", "n", "method"]
            labels = r.sample(pool, min(k, len(pool))) if not hostile else [r.choice(pool) for _ in range(k)]
            if name not in canon:
                canon[name] = (kind, labels)
        else:
            kind, labels = canon[name]
            labels = list(labels)
            r.shuffle(labels)
        bad = r.choice(labels) if labels and hostile and r.random() < 0.05 else None
        ems.append((kind, name, labels, bad))
    return glob, ems


def _case(lines, impl, model):
    c = core.Case("metrics", lines)
    c.impl = impl
    c.model = model
    return c


def check_metrics(rep, tier, seed):
    tbl = parse_table()
    sites = tbl["sites"]
    cov = rep.cov.setdefault("metrics", {})
    cov.update({"emit_call_sites": tbl["call_sites"], "table_entries": len(sites), "dead_sites": len(tbl["dead"]),
                "global_label_sets": tbl["globals"],
                "distinct_formatted_names": len({fmt_name(s["name"]) for s in sites})})
    if not tbl["parsed_all"] or tbl["unresolved"] or not sites or len(tbl["globals"]) != 1:
        p = core.write_replay("C20", "metric-table", text="metric site table cannot be used: parsed_all=%s unresolved=%s "
                              "entries=%d global_label_sets=%s" % (tbl["parsed_all"], tbl["unresolved"], len(sites), tbl["globals"]))
        rep.violation(p, no_input=True)
        return True
    glob = tbl["globals"][0]

    # (1)+(2a) table replays, every rotation, real client vs Lean model
    scripts, groups = rotations(sites)
    cov["rotations"] = len(scripts)
    cov["names_shared_by_several_sites"] = sum(1 for g in groups.values() if len(g) > 1)
    jobs = [(glob, [(s["kind"], s["name"], s["labels"], None) for s in order]) for order in scripts]
    model = lean_model_outcomes(jobs, "table")
    for k, (job, order) in enumerate(zip(jobs, scripts)):
        lines, out = impl_outcomes(*job)
        exp_model = ["cfg ok"]
        stopped = False
        for s, o in zip(order, model[k] + ["?"] * len(order)):
            exp_model.append("emit %s %s" % (s["name"], o))
        c = _case(lines, out, exp_model[:len(model[k]) + 1])
        rep.count_case(c)
        for s, o in zip(order, out[1:]):
            if not o.endswith(" ok"):
                first = next(x for x in order if fmt_name(x["name"]) == fmt_name(s["name"]))
                desc = ("metric %r: emission at %s:%d (kind %s, labels %s) after first use at %s:%d (kind %s, labels %s) "
                        "answers %r on the real Prometheus client" % (
                            s["name"], s["file"], s["line"], s["kind"], s["labels"], first["file"], first["line"],
                            first["kind"], first["labels"], o))
                if core.handle_oracle_hit(rep, "C20", "metric-mismatch", c, desc, "metric-label-mismatch:" + fmt_name(s["name"])):
                    return True
                stopped = True
                break
        if stopped:
            continue
        if len(out) != len(lines):
            rep.violation(core.write_replay("C20", "metrics-harness", case=c, text="# harness transcript incomplete"), no_input=True)
            return True
        got = [o.split()[-1] for o in out[1:]]
        if upto_first_panic(got) != model[k]:
            core.handle_diff(rep, "C20", "metrics-model", c)
            return True

    # (2b) random emission sequences: Lean model of the client vs the real client
    n = 40 if tier == "quick" else 400
    r = rng_for(seed, "c20/metrics")
    rnd = [random_script(r) for _ in range(n)]
    model = lean_model_outcomes(rnd, "random")
    agree = panics = 0
    for job, mo in zip(rnd, model):
        lines, out = impl_outcomes(*job)
        got = upto_first_panic([o.split()[-1] for o in out[1:]])
        c = _case(lines, out, ["cfg ok"] + ["emit %s %s" % (e[1], o) for e, o in zip(job[1], mo)])
        rep.count_case(c)
        if got != mo:
            core.handle_diff(rep, "C20", "metrics-model", c)
            return True
        agree += 1
        panics += 1 if "PANIC" in mo else 0
    cov["model_vs_client_random_scripts"] = agree
    cov["random_scripts_ending_in_panic"] = panics

    # (3) run-time label values
    dyn = [(s, l) for s in sites for l in s["dyn"]]
    san = [(s, l) for s in sites for l in s["san"]]
    cov["dynamic_label_sites"] = ["%s:%d %s{%s}" % (s["file"], s["line"], s["name"], l) for s, l in dyn]
    cov["sanitised_label_sites"] = ["%s:%d %s{%s}" % (s["file"], s["line"], s["name"], l) for s, l in san]
    # end to end, whatever the table says: a Watch whose key is not valid UTF-8 (client bytes reach the label
    # `prefix` of watcherhub.events_chan.closed when the watch ends); control: a well-formed key
    ok_lines = ["cfg", "watchend 2f722f61"]
    ok_out = core.run_impl("metrics", ok_lines, timeout=60)
    if ok_out != ["cfg ok", "watchend ok"]:
        core.handle_diff(rep, "C20", "metrics-watchend", _case(ok_lines, ok_out, ["cfg ok", "watchend ok"]))
        return True
    long_keys = []
    for cut in (32, 64, 128, 255, 256):
        for rune in ("\u00e9", "\u4e16", "\U0001f600"):          # 2-, 3- and 4-byte runes straddling the offset
            for back in range(1, len(rune.encode()) ):
                pre = b"/r" + b"n" * (cut - back - 2)
                long_keys.append((pre + rune.encode() + b"/pods/").hex())
    for key in ["ff2f61", "2f72c328", "80"] + long_keys[::3] + [(b"/r" + b"\xff" * 70).hex()]:
        bad_lines = ["cfg", "watchend " + key]
        bad_out = core.run_impl("metrics", bad_lines, timeout=60)
        c2 = _case(bad_lines, bad_out, ["cfg ok", "watchend ok"])
        rep.count_case(c2)
        cov.setdefault("watch_with_non_utf8_key", {})[key] = bad_out[-1][:200] if bad_out else "<no output>"
        if bad_out != ["cfg ok", "watchend ok"]:
            desc = ("Watch(key=0x%s) then cancel: the backend's processEvents goroutine emits watcherhub.events_chan.closed "
                    "with label prefix derived from the raw key; the Prometheus client panics on a label value that is not "
                    "valid UTF-8 and the node process dies: %s" % (key, (bad_out[-1] if bad_out else "")[:200]))
            if core.handle_oracle_hit(rep, "C20", "metric-label-value", c2, desc,
                                      "metric-label-value-not-utf8:watcherhub.events_chan.closed:prefix"):
                return True
            break
    for s, l in dyn:
        # the client (and the model) panic on a value that is not valid UTF-8: tie of that part of the model
        lines, out = impl_outcomes(glob, [(s["kind"], s["name"], s["labels"], l)])
        c = _case(lines, out, ["cfg ok", "emit %s PANIC" % s["name"]])
        rep.count_case(c)
        if out[1:] != ["emit %s PANIC" % s["name"]]:
            core.handle_diff(rep, "C20", "metrics-badvalue", c)
            return True
        if l in ASSUMED_VALID and (s["name"], l) not in REQUEST_CONTROLLED:
            a = ("metric label %s{%s} carries the leader address from the election record (written only by the peers from "
                 "their Identity configuration; not writable through either API): assumed valid UTF-8 — hypothesis "
                 "LeaderAddressValid of KB.C20Metrics.metrics_never_panic" % (s["name"], l))
            if a not in rep.assumptions:
                rep.assumptions.append(a)
        else:
            desc = ("label %s of %s (%s:%d) passes unsanitised run-time data as a label value and the client panics on "
                    "invalid UTF-8" % (l, s["name"], s["file"], s["line"]))
            if core.handle_oracle_hit(rep, "C20", "metric-label-value", c, desc,
                                      "metric-label-value-not-utf8:%s:%s" % (s["name"], l)):
                return True
    if ("watcherhub.events_chan.closed", "prefix") not in {(s["name"], l) for s, l in san}:
        # the extractor no longer sees the sanitiser (the Lean theorem metric_sanitised_label_sites fails as well)
        cov["watch_prefix_label_sanitised_in_table"] = False
    rep.assumptions += [
        "the program's metric emissions are exactly the Emit* call sites of /repo/pkg and /repo/cmd (non-test); "
        "prometheus.emitMetrics is unreferenced by non-test code (checked by the extractor on every run)",
        "the global label value (cluster name) is valid UTF-8 (operator configuration)",
        "only the production client pkg/metrics/prometheus is considered (client_golang v1.12.1 as vendored by go.mod)",
    ]
    return False


# ------------------------------------------------------------------ request part: hostile requests + probes

HOSTILE_REVS = [0, 1, 999, 2 ** 31, 2 ** 62, 2 ** 63, 2 ** 63 + 5, 2 ** 64 - 1, 2 ** 64 - 7]


def hostile_key(r):
    x = r.random()
    if x < 0.2:
        return b""
    if x < 0.4:
        return bytes(r.randint(0, 255) for _ in range(r.randint(1, 12)))            # any bytes, incl. non-UTF-8
    if x < 0.55:
        return b"\x57\xfb\x80\x8b" + bytes(r.randint(0, 255) for _ in range(r.randint(0, 10)))  # magic-prefixed
    if x < 0.7:
        return PREFIX_B + b"/h" + bytes([r.choice([0, 1, 0x23, 0x24, 0xff])]) + b"x"  # bytes at / below the split byte
    if x < 0.8:
        return b"k" * r.choice([200, 2000])
    return PREFIX_B + b"/ok" + bytes([r.randint(0x61, 0x7a)])


def gen_request_case(seed, i, engine):
    from ..gen import hx, rng_for
    from .. import hist
    r = rng_for(seed, "c20r/%d" % i)
    lines = [hist.cfg_line(engine)]
    probes = 0
    for _ in range(r.randint(6, 16)):
        k = hostile_key(r)
        x = r.random()
        rev = r.choice(HOSTILE_REVS)
        if x < 0.2:
            lines.append("create %s %s" % (hx(k), hx(r.choice([b"v", b"tombstone", bytes([0xff, 0xfe])]))))
        elif x < 0.4:
            lines.append("update %s %s %d" % (hx(k), hx(b"u"), rev))
        elif x < 0.55:
            lines.append("delete %s %d" % (hx(k), rev))
        elif x < 0.7:
            lines.append("get %s %d" % (hx(k), rev))
        elif x < 0.85:
            k2 = hostile_key(r)
            lines.append("list %s %s %d %d" % (hx(k), hx(k2), rev, r.choice([0, 1, 2 ** 31, 2 ** 62, -1, -1888, -(2 ** 63), 2 ** 63 - 1, 2 ** 63 - 2])))
        elif x < 0.93:
            lines.append("count %s %s" % (hx(k), hx(hostile_key(r))))
        else:
            lines.append("compact %d" % rev)
        # probe: the node keeps serving — a fresh well-formed key can be created and read back
        probes += 1
        pk = PREFIX_B + b"/probe/" + (b"%04d" % probes)
        lines += ["rev", "create %s %s" % (hx(pk), hx(b"p")), "rev", "get %s 0" % hx(pk)]
    return core.Case("backend", lines, {"engine": engine})


def gen_compact_order_case(seed, i, engine):
    """compaction requests in ANY order - rising, falling, repeated, zero, far future - between ordinary writes; after each the
    node must still create and read back a fresh key (and must not have left a begun write batch behind: core.leak_hit)"""
    from ..gen import hx, rng_for
    from .. import hist
    r = rng_for(seed, "c20co/%d" % i)
    lines = [hist.cfg_line(engine)]
    n = r.randint(4, 9)
    for j in range(n):
        lines.append("create %s %s" % (hx(PREFIX_B + b"/co/%02d" % j), hx(b"v")))
    lines += ["delete %s 0" % hx(PREFIX_B + b"/co/00"), "rev"]
    top = hist.INIT + n + 1
    revs = [r.randint(hist.INIT + 1, top) for _ in range(r.randint(3, 6))] + r.sample([0, 1, top + 50, 2 ** 62, top, top], 2)
    r.shuffle(revs)
    if r.random() < 0.7:
        hi = max(x for x in revs if x <= top)
        revs += [hi, hi - r.randint(1, 3)]          # always one falling pair inside the history
    probes = 0
    for rev in revs:
        probes += 1
        pk = PREFIX_B + b"/probe/" + (b"%04d" % probes)
        lines += ["compact %d" % rev, "rev", "create %s %s" % (hx(pk), hx(b"p")), "rev", "get %s 0" % hx(pk)]
    return core.Case("backend", lines, {"engine": engine, "compact_order": True})


PREFIX_B = b"/r"


def split_byte_witness(engine):
    """known finding: a key that contains the split byte followed by 8 bytes shadows the point reads of the key
    before the split byte (KB.C20Requests.probe_after_anything_counterexample)"""
    from ..gen import hx
    from .. import hist
    victim = PREFIX_B + b"/victim"
    hostile = victim + b"$" + b"\xff" * 7 + b"\xfe"
    lines = [hist.cfg_line(engine), "create %s %s" % (hx(hostile), hx(b"h")), "rev", "create %s %s" % (hx(victim), hx(b"v")), "rev",
             "get %s 0" % hx(victim)]
    return core.Case("backend", lines, {"engine": engine, "witness": "split-byte"})


def request_oracle(case):
    from .. import hist
    if case.impl and (case.impl[-1].startswith("CRASHED") or case.impl[-1] == "TIMEOUT"):
        return ("the node process died / hung: %s" % case.impl[-1][:300], "process-died")
    for i, (line, out) in enumerate(zip(case.lines, case.impl)):
        if " PANIC " in out or out.endswith(" PANIC"):
            return ("line %d: %s panicked: %s" % (i + 1, line, out[:200]), "handler-panic")
    last_create = None
    for i, (line, out) in enumerate(zip(case.lines, case.impl)):
        t, o = line.split(), out.split()
        if t[0] == "create" and (b"/probe/" in hist.unhx(t[1]) or case.meta.get("witness")):
            last_create = (t[1], out)
            if b"/probe/" in hist.unhx(t[1]) and o[1] != "ok":
                return ("line %d: after a hostile request a fresh key cannot be created: %s -> %s" % (i + 1, line, out), "probe-create-fails")
        if t[0] == "get" and last_create and t[1] == last_create[0] and last_create[1].split()[1] == "ok":
            if len(o) < 3 or o[2] == "-":
                sig = "key-with-split-byte-shadows-reads" if case.meta.get("witness") else "probe-read-fails"
                return ("line %d: a key that was just created (%s) reads as absent" % (i + 1, last_create[0]), sig)
    return None


# ------------------------------------------------------------------ streamed ranges with SHORT client-supplied borders
# (/repo 5ace897: the borders of a range-stream watch-create are handed to the scanner as they are; the TiKV adapter clips
# the end into every region and adjustPartitionsBorders hands it to Decode, which indexed out of range on a key shorter
# than magic + split byte + revision — in the scan goroutine, which nothing recovers: the process died)

MAGIC_B = b"\x57\xfb\x80\x8b"


def short_borders(r):
    """non-empty byte strings too short to be an internal key: 1 byte, the bare magic (4), up to 12 bytes"""
    import struct
    return [bytes([r.choice([0x00, 0x01, 0x2f, 0x57, 0x58, 0xff])]),          # 1 byte
            MAGIC_B[:r.choice([2, 3])],
            MAGIC_B,                                                          # 4 bytes: just the magic
            MAGIC_B + bytes([r.choice([0x24, 0x2f, 0x00, 0xff])]),            # 5
            MAGIC_B + b"$" + b"\x00" * 3,                                     # 8: magic, split byte at len-9 < 0 ...
            MAGIC_B + b"/r/" + bytes([r.randint(0x61, 0x64)]),                # 8: magic + a raw key, no revision
            MAGIC_B + b"$" + struct.pack(">Q", r.choice([0, 7]))[:7],         # 12: one byte short of the shortest internal key
            MAGIC_B + b"/r/a$" + b"\x00" * 3,                                 # 12
            b"/r/" + bytes([r.randint(0x61, 0x64)])]                          # a raw key (no magic at all)


def gen_short_border_case(seed, i, engine):
    import struct
    from ..gen import hx, rng_for
    from . import c16
    r = rng_for(seed, "c20sb/%d" % i)
    keys = [b"/r/a", b"/r/b", b"/r/c", b"/r/d"]
    cfg = c16.cfg_line(engine)
    if engine == "tikv":
        # a multi-region mock cluster: borders at internal keys of the key pool (index records and version records)
        ks = sorted(r.sample(keys, r.choice([1, 2, 3])))
        cfg += " regions=" + ",".join(hx(MAGIC_B + k + b"$" + struct.pack(">Q", r.choice([0, 0, c16.INIT + 2]))) for k in ks)
    lines = [cfg]
    for k in keys[:3]:
        lines += [c16.render_txn(c16.t_create(k, b"v" + k[-1:])), "rev"]
    rev = c16.INIT + 3
    lo_i, hi_i = MAGIC_B + b"/r/$" + b"\x00" * 8, MAGIC_B + b"/r0$" + b"\x00" * 8     # well-formed internal borders
    n = 0
    shorts = short_borders(r)
    r.shuffle(shorts)
    for sb in shorts[:r.randint(4, len(shorts))]:
        other = r.choice([lo_i, hi_i, b"/r/", b"/r0", r.choice(shorts), MAGIC_B + b"/r/b$" + struct.pack(">Q", r.choice([0, c16.INIT + 2]))])
        for (k, e) in ((other, sb), (sb, other)):                       # the short border as range_end, and as key
            n += 1
            lines += ["watch s%d %s %s %d" % (n, hx(k), hx(e), -rev), "wevents s%d" % n]
        if r.random() < 0.3:
            n += 1
            lines += ["watch s%d %s %s %d" % (n, hx(sb), hx(sb + b"\xff"), -r.choice([rev, rev - 1, 1, rev + 50])), "wevents s%d" % n]
    # the node must still serve: a transaction and a range
    lines += [c16.render_txn(c16.t_create(b"/r/zz-after", b"p")), "rev", c16.FULL]
    return c16.EtcdCase("etcd", lines, {"engine": engine, "kind": "short-borders"})


def short_border_oracle(case):
    if case.impl and (case.impl[-1].startswith("CRASHED") or case.impl[-1] == "TIMEOUT"):
        last = len(case.impl) - 1
        req = case.lines[last] if last < len(case.lines) else "?"
        return ("the node process died / hung at line %d (`%s`): %s" % (last + 1, req, case.impl[-1][:400]), "short-border-crash")
    for i, (line, out) in enumerate(zip(case.lines, case.impl)):
        if " PANIC" in out:
            return ("line %d: %s panicked: %s" % (i + 1, line, out[:200]), "short-border-panic")
        t = line.split()
        if t[0] == "watch" and not out.endswith(" created"):
            return ("line %d: %s -> %s: a watch-create must be answered `created`" % (i + 1, line, out[:200]), "short-border-unanswered")
        if t[0] == "wevents" and "656f66:" not in out:
            return ("line %d: %s -> %s: the streamed range did not send its terminator" % (i + 1, line, out[:200]), "short-border-no-terminator")
    if len(case.impl) < len(case.lines):
        return ("only %d of %d requests answered" % (len(case.impl), len(case.lines)), "short-border-crash")
    txn, rng = case.impl[-3], case.impl[-1]
    if not txn.startswith("txn ok=1"):
        return ("after the streamed ranges a create is not served: %s" % txn[:200], "short-border-not-serving")
    if "2f722f7a7a2d6166746572" not in rng:
        return ("after the streamed ranges the range read does not show the key just created: %s" % rng[:300], "short-border-not-serving")
    return None


def short_border_diff(case):
    """Case.diff, except that the CONTENT of a streamed range whose bounds are inverted (key > range_end, both given) is not
    compared on a multi-region engine: the storage API reads `start > end` as "iterate backwards", the TiKV adapter clips every
    region to the inverted pair, and what comes out depends on where the regions happen to lie - no property says what an
    inverted interval contains (C13 quantifies over partitionings of a scanned interval, C20 over "answers and keeps serving"),
    and the executable model (one forward scan) does not represent it. Single-region configurations are compared in full."""
    multi = "regions=" in case.lines[0] and "," in case.lines[0].split("regions=", 1)[1].split()[0]
    inverted = set()
    for ln in case.lines:
        t = ln.split()
        if t[0] == "watch" and len(t) >= 4 and t[3] != "-" and t[2] != "-":
            try:
                if bytes.fromhex(t[2]) > bytes.fromhex(t[3]) and len(t[3]) > 0:
                    inverted.add(t[1])
            except ValueError:
                pass
    a, b = case.model or [], case.impl or []
    for i in range(max(len(a), len(b), len(case.lines))):
        x = a[i] if i < len(a) else "<missing>"
        y = b[i] if i < len(b) else "<missing>"
        if x != y:
            t = case.lines[i].split() if i < len(case.lines) else []
            if multi and len(t) == 2 and t[0] == "wevents" and t[1] in inverted:
                continue
            return i
    return None


def gen_hostile_watch_case(seed, i, engine):
    """watch-create requests of the WATCH shape (start revision >= 0) with hostile keys - empty, without the leading '/', raw
    bytes, a lone NUL - and hostile range ends / revisions, interleaved with cancels of known and unknown watches; the node
    must answer every one (created, then possibly cancelled), stay up, and keep serving a create + range afterwards."""
    from ..gen import hx, rng_for
    from . import c16
    r = rng_for(seed, "c20hw/%d" % i)
    lines = [c16.cfg_line(engine), c16.render_txn(c16.t_create(b"/r/a", b"va")), "rev"]
    keys = [b"", b"registry/pods/x", b"r/a", b"\xff\xfe\x80", b"\x00", b"a", b"/", b"/r/", b"/r/a", b"//", b"\x57\xfb\x80\x8b"]
    ends = [b"", b"", b"/r0", b"\x00", b"r0", b"\xff"]
    revs = [0, 0, 1, c16.INIT, c16.INIT + 1, c16.INIT + 500, 2 ** 62]
    n = 0
    for _ in range(r.randint(6, 12)):
        n += 1
        lines.append("watch h%d %s %s %d nowait=1" % (n, hx(r.choice(keys)), hx(r.choice(ends)), r.choice(revs)))
        if r.random() < 0.4:
            lines.append("wcancel h%d" % r.randint(1, n + 2))
        if r.random() < 0.3:
            lines += [c16.render_txn(c16.t_create(b"/r/k%d" % n, b"v")), "rev"]
    lines += [c16.render_txn(c16.t_create(b"/r/zz-after", b"p")), "rev", c16.FULL]
    return c16.EtcdCase("etcd", lines, {"engine": engine, "kind": "hostile-watch"}, compare=lambda op: False)


def hostile_watch_oracle(case):
    if case.impl and (case.impl[-1].startswith("CRASHED") or case.impl[-1] == "TIMEOUT"):
        last = len(case.impl) - 1
        req = case.lines[last] if last < len(case.lines) else "?"
        return ("the node process died / hung at line %d (`%s`): %s" % (last + 1, req, case.impl[-1][:400]), "hostile-watch-crash")
    for i, (line, out) in enumerate(zip(case.lines, case.impl)):
        if " PANIC" in out:
            return ("line %d: %s panicked: %s" % (i + 1, line, out[:200]), "hostile-watch-crash")
    if len(case.impl) < len(case.lines):
        return ("only %d of %d requests answered (the node died at `%s`)" % (len(case.impl), len(case.lines), case.lines[len(case.impl) - 1]),
                "hostile-watch-crash")
    txn, rng = case.impl[-3], case.impl[-1]
    if not txn.startswith("txn ok=1"):
        return ("after the hostile watch requests a create is not served: %s" % txn[:200], "hostile-watch-not-serving")
    if "2f722f7a7a2d6166746572" not in rng:
        return ("after the hostile watch requests the range read does not show the key just created: %s" % rng[:300], "hostile-watch-not-serving")
    return None


def check_hostile_watches(rep, tier, seed):
    n = 9 if tier == "quick" else 300
    cases = [gen_hostile_watch_case(seed, i, ["memkv", "badger", "tikv"][i % 3]) for i in range(n)]
    core.run_cases(cases)
    return core.judge(rep, "C20", cases, hostile_watch_oracle, tag="correspondence-hostile-watch")


def check_short_borders(rep, tier, seed):
    n = 18 if tier == "quick" else 400
    engines = ["tikv", "tikv", "tikv", "memkv", "tikv", "badger"]
    cases = [gen_short_border_case(seed, i, engines[i % len(engines)]) for i in range(n)]
    core.run_cases(cases)
    for c in cases:
        rep.count_case(c)
        hit = short_border_oracle(c)
        if hit:
            if core.handle_oracle_hit(rep, "C20", hit[1], c, hit[0], hit[1]):
                return True
            continue
        if short_border_diff(c) is not None:
            core.handle_diff(rep, "C20", "correspondence-short-borders", c)
            return True
    rep.assumptions += ["what a node STREAMS for an inverted interval (key > range_end) on a multi-region engine is not compared with the "
                        "model (the engine iterates such a piece backwards, per region; the model does not represent that): the request must "
                        "be answered, terminated, and the node must keep serving",
                        "streamed ranges through the etcd Watch API (negative start revision) with client-supplied borders of 1..12 bytes as "
                        "key and as range_end, on single- and multi-region engines, each script followed by a create and a range read"]
    return False


def check_burst(rep, tier, glob):
    """concurrent FIRST emission of a metric name (several request goroutines at once after start-up): the client's
    get-or-create must not register the vector twice (the Prometheus registry panics on a duplicate)"""
    rounds = 250 if tier == "quick" else 2500
    lines = ["cfg global=%s" % (",".join(glob) or "-")]
    for kind in ("counter", "gauge", "histogram"):
        lines.append("burst %s c20.burst.%s m,n 48 %d" % (kind, kind, rounds))
    out = core.run_impl("metrics", lines, timeout=300)
    c = _case(lines, out, ["cfg ok"] + ["burst %s panics=0 errs=0" % k for k in ("counter", "gauge", "histogram")])
    rep.count_case(c)
    for ln, o in zip(lines[1:], out[1:] + ["<missing>"] * 3):
        if "panics=0 errs=0" not in o:
            p = core.write_replay("C20", "metric-first-use-race", case=c,
                                  text="# oracle: concurrent first emission of one metric name panicked inside the metrics client: `%s` -> `%s`" % (ln, o))
            rep.violation(p)
            return True
    rep.cov.setdefault("metrics", {})["first_use_bursts"] = 3 * rounds
    return False


def check_requests(rep, tier, seed):
    engines = ["memkv", "badger", "tikv"]
    n = 30 if tier == "quick" else 900
    cases = [gen_request_case(seed, i, engines[i % 3]) for i in range(n)] + [split_byte_witness(e) for e in engines]
    cases += [gen_compact_order_case(seed, i, engines[i % 3]) for i in range(6 if tier == "quick" else 120)]
    core.run_cases(cases)
    for c in cases:
        rep.count_case(c)
        hit = core.leak_hit(c) or request_oracle(c)
        if hit:
            if core.handle_oracle_hit(rep, "C20", hit[1], c, hit[0], hit[1]):
                return True
            continue
        if c.diff() is not None:
            core.handle_diff(rep, "C20", "correspondence-requests", c)
            return True
    rep.assumptions += ["request part: hostile keys / revisions / limits through the native backend API on three engines, each followed by a "
                        "create+read probe of a fresh well-formed key; the etcd-API casts are covered by KB.C20Requests.cast_* and the C16 suite"]
    return False


def check(rep, tier, seed):
    if check_metrics(rep, tier, seed):
        return True
    tbl = parse_table()
    if check_burst(rep, tier, tbl["globals"][0] if tbl["globals"] else []):
        return True
    if check_hostile_watches(rep, tier, seed):
        return True
    if check_short_borders(rep, tier, seed):
        return True
    if check_requests(rep, tier, seed):
        return True
    # native handler glue (pkg/server/brain read.go / write.go): KB.Props.C20Native + differential suite `native`
    from .. import native
    if native.check(rep, tier, seed, "C20"):
        return True
    # the dealing window on the real allocator (TestTsoWindow: a full window is refused, never dealt without a slot):
    # the concrete counterpart of KB.C04Window / KB.C18Cas, which this property audits
    from .. import tsocas
    return tsocas.run_dynamic(rep, "C20", seed)
