"""C18 — only the leader writes and streams; followers read at its revision or fail.

Part A (exhaustive): every handler of both APIs (the list comes from the model's regenerated guard table and
must equal the harness's own list) x request shape x {leader, follower} x {proxy off, on} x {leader ok, down,
err}, run on the REAL etcd / brain server objects over a recording backend.
Part B: schedules of the follower read path (begin / flight.Do / leader answer / reply / SetCurrentRevision /
backend read, interleaved with leader commits) replayed on the real revision syncer, brain server and
backends through gates.

The oracle judges the IMPLEMENTATION transcript; the model transcript is only compared afterwards."""
import os
import random

from .. import core

SUITE = "roles"
INIT = 10

# spec-side classification of the request types (independent of the extracted table)
KIND = {
    "etcd/Txn": "write", "brain/Create": "write", "brain/Update": "write", "brain/Delete": "write", "brain/Compact": "write",
    "etcd/Watch/Watch": "watch", "brain/Watch": "watch",
    "etcd/Range": "read", "etcd/Watch/List": "read", "brain/Get": "read", "brain/Range": "read", "brain/Count": "read",
    "brain/ListPartition": "read", "brain/RangeStream": "read",
}
SHAPES = {"etcd/Range": ["get", "list", "count", "partitions"],
          "etcd/Txn": ["create", "update", "delete", "compact", "invalid"]}
WRITE_M = {"Create", "Update", "Delete", "Compact"}
WATCH_M = {"Watch"}
READ_M = {"Get", "List", "Count", "GetPartitions", "ListByStream"}
REQUIRED = ["etcd/Range", "etcd/Txn", "etcd/Watch/List", "etcd/Watch/Watch", "etcd/Compact", "brain/Create", "brain/Update",
            "brain/Delete", "brain/Compact", "brain/Get", "brain/Range", "brain/Count", "brain/ListPartition",
            "brain/RangeStream", "brain/Watch"]


# ---------------------------------------------------------------- part A: the role table

def table_cases(handlers):
    cases = []
    for h in handlers:
        api, name = h.split("/", 1)
        lines = ["cfg init=%d" % INIT]
        for shape in SHAPES.get(h, [None]):
            for role in ("leader", "follower"):
                for proxy in (0, 1):
                    for lb in ("ok", "down", "err"):
                        ln = "req %s %s role=%s proxy=%d leader=%s" % (api, name, role, proxy, lb)
                        if shape:
                            ln += " shape=" + shape
                        lines.append(ln)
        cases.append(core.Case(SUITE, lines, {"part": "table", "handler": h}))
    # request shapes outside the guard's data condition (oracle only, the decision model does not cover them):
    # a watch-create with revision >= 0 whose key does not start with "/"
    lines = ["cfg init=%d" % INIT]
    for role in ("leader", "follower"):
        for proxy in (0, 1):
            for lb in ("ok", "down", "err"):
                lines.append("req etcd Watch/Watch role=%s proxy=%d leader=%s shape=nonpure" % (role, proxy, lb))
    cases.append(core.Case(SUITE, lines, {"part": "table", "handler": "etcd/Watch/Watch", "oracle_only": True}))
    return cases


def opts_of(tokens):
    return dict(t.split("=", 1) for t in tokens if "=" in t)


def table_oracle(case):
    for i, (line, out) in enumerate(zip(case.lines, case.impl)):
        t, o = line.split(), out.split()
        if t[0] != "req":
            continue
        if len(o) != 5 or o[0] != "req" or not o[4].startswith("calls="):
            return ("line %d: %s answered %r" % (i + 1, line, out), "malformed-answer")
        h = t[1] + "/" + t[2]
        op = opts_of(t[3:])
        outcome = o[3]
        calls = [] if o[4] == "calls=-" else o[4][6:].split(",")
        kind = KIND.get(h, "other")
        where = "line %d: %s -> %s" % (i + 1, line, out)
        if op["role"] == "follower":
            if WRITE_M & set(calls):
                return (where + ": a node that is not leader applied a write to its backend", "follower-backend-write")
            if WATCH_M & set(calls):
                return (where + ": a node that is not leader served a watch from its own history", "follower-local-watch")
            nonpure = op.get("shape") == "nonpure"   # invalid request: cancelled before any role decision
            if kind in ("write", "watch") and outcome not in ("forwarded", "unavailable") and not (nonpure and outcome == "error:canceled"):
                return (where + ": a follower neither forwarded nor refused a %s request" % kind, "follower-%s-not-refused" % kind)
            if kind in ("write", "watch") and outcome == "forwarded" and op["proxy"] != "1":
                return (where + ": forwarded although the proxy is disabled", "forward-without-proxy")
            if kind == "read":
                reads = [c for c in calls if c in READ_M]
                if op["leader"] != "ok":
                    if not outcome.startswith("error") or reads:
                        return (where + ": the leader could not be reached but the read did not fail", "follower-read-without-sync")
                elif reads and ("SetCurrentRevision" not in calls or
                                calls.index("SetCurrentRevision") > min(calls.index(r) for r in reads)):
                    return (where + ": backend read before the leader's revision was adopted", "follower-read-before-sync")
        else:
            if outcome in ("forwarded", "unavailable", "error:sync") or (outcome == "error:canceled" and op.get("shape") != "nonpure"):
                return (where + ": the leader did not serve the request itself", "leader-refuses")
        if kind == "other" and calls:
            return (where + ": a stub handler touched the backend", "stub-touches-backend")
    return None


# ---------------------------------------------------------------- part B: follower schedules

class Sim:
    """Enabling conditions only (which script steps make sense next); the expected answers come from the Lean model."""

    def __init__(self, nreads, ncommits):
        self.ph = []
        self.flight = "none"
        self.waiting = set()
        self.commits = ncommits
        self.nreads = nreads

    def enabled(self, modes):
        st = []
        if len(self.ph) < self.nreads:
            st.append(("begin", len(self.ph)))
        for r, p in enumerate(self.ph):
            if p == "begun":
                st.append(("enter", r))
            elif p == "got":
                st.append(("set", r))
            elif p == "synced":
                st.append(("serve", r))
        if self.flight == "pending":
            st += [("answer", m) for m in modes]
        if self.flight.startswith("answered"):
            st.append(("reply", None))
        if self.commits > 0:
            st.append(("commit", None))
        return st

    def apply(self, op, a):
        if op == "begin":
            self.ph.append("begun")
        elif op == "enter":
            self.ph[a] = "waiting"
            self.waiting.add(a)
            if self.flight == "none":
                self.flight = "pending"
        elif op == "answer":
            self.flight = "answered:" + a
        elif op == "reply":
            ok = self.flight.endswith(":ok")
            for r in self.waiting:
                self.ph[r] = "got" if ok else "failed"
            self.waiting = set()
            self.flight = "none"
        elif op == "set":
            self.ph[a] = "synced"
        elif op == "serve":
            self.ph[a] = "done"
        elif op == "commit":
            self.commits -= 1

    def copy(self):
        s = Sim(self.nreads, self.commits)
        s.ph, s.flight, s.waiting = list(self.ph), self.flight, set(self.waiting)
        return s


def enum_schedules(nreads, ncommits, modes=("ok",)):
    out = []

    def rec(sim, sched):
        st = sim.enabled(modes)
        if not st:
            out.append(sched)
            return
        for op, a in st:
            s2 = sim.copy()
            s2.apply(op, a)
            rec(s2, sched + [(op, a)])
    rec(Sim(nreads, ncommits), [])
    return out


def commit_class(sched):
    """Two schedules that differ only in where a leader commit sits between two steps that do not look at the
    leader's revision are the same experiment: a commit interacts only with `begin` (records the revision at
    which the read began) and `answer` (publishes the revision).  Key = the schedule without its commits + the
    number of commits each begin/answer has seen."""
    commits, k = 0, []
    for op, a in sched:
        if op == "commit":
            commits += 1
        elif op in ("begin", "answer"):
            k.append((op, a, commits))
        else:
            k.append((op, a))
    return tuple(k)


def one_per_class(scheds):
    seen, out = set(), []
    for s in scheds:
        k = commit_class(s)
        if k not in seen:
            seen.add(k)
            out.append(s)
    return out


def random_schedule(r, nreads, ncommits, modes):
    sim, sched = Sim(nreads, ncommits), []
    while True:
        st = sim.enabled(modes)
        if not st:
            return sched
        # prefer overlap: delay stores and serves a little, answer mostly ok
        w = [(0.5 if op in ("set", "serve") else 0.4 if (op == "answer" and a != "ok") else 1.0) for op, a in st]
        op, a = r.choices(st, weights=w)[0]
        sim.apply(op, a)
        sched.append((op, a))


def sched_lines(sched, init=INIT):
    lines = ["cfg init=%d base=%d" % (init, INIT)]
    for op, a in sched:
        if op in ("begin", "enter", "set", "serve"):
            lines.append("%s r%d" % (op, a))
        elif op == "answer":
            lines.append("answer" if a == "ok" else "answer mode=%s" % a)
        else:
            lines.append(op)
    # failed reads are asked for their result too
    lines.append("state")
    return lines


def sched_case(scheds):
    lines = []
    init = INIT
    for s in scheds:
        # the harness process keeps one leader backend: the next schedule starts where this one's commits end
        lines += sched_lines(s, init)
        init += sum(1 for op, _ in s if op == "commit")
        # every read reports how it ended
        n = sum(1 for op, _ in s if op == "begin")
        served = {a for op, a in s if op == "serve"}
        lines += ["serve r%d" % i for i in range(n) if i not in served]
    return core.Case(SUITE, lines, {"part": "follower", "schedules": len(scheds)})


def sched_oracle(case):
    """-> list of (description, signature) hits, one per stale read."""
    hits = []
    begin, own, failed_fetch, cur, base = {}, {}, set(), None, INIT
    flight_readers = set()
    bad_mode = False
    for i, (line, out) in enumerate(zip(case.lines, case.impl)):
        t, o = line.split(), out.split()
        if t[0] == "cfg":
            begin, own, failed_fetch, flight_readers, bad_mode = {}, {}, set(), set(), False
            cur = i
            base = int(opts_of(t[1:]).get("base", INIT))
        elif t[0] == "begin" and len(o) == 3 and o[2].startswith("at="):
            begin[t[1]] = int(o[2][3:])
        elif t[0] == "enter" and len(o) == 3 and o[2] in ("start", "join"):
            flight_readers.add(t[1])
        elif t[0] == "answer":
            bad_mode = len(o) == 2 and o[1] in ("err", "down")
        elif t[0] == "reply" and len(o) == 3:
            if bad_mode:
                failed_fetch |= flight_readers
            flight_readers, bad_mode = set(), False
        elif t[0] == "set" and len(o) == 4 and o[2].isdigit():
            own[t[1]] = int(o[2])
        elif t[0] == "serve":
            r = t[1]
            where = "line %d (schedule starting at line %d): %s -> %s" % (i + 1, (cur or 0) + 1, line, out)
            if r in failed_fetch:
                if len(o) < 3 or not o[2].startswith("error") or "read=1" in o:
                    hits.append((where + ": the leader could not be reached for this read's fetch but the read did not fail",
                                 "read-served-after-failed-sync"))
                continue
            if len(o) == 4 and o[2].startswith("rev=") and r in begin:
                rev, n = int(o[2][4:]), int(o[3][2:])
                if rev < begin[r]:
                    if own.get(r, rev) < begin[r]:
                        sig = "joined-fetch-stale"
                        why = "it joined a single-flight fetch the leader had answered (%d) before the read began" % own.get(r, rev)
                    else:
                        sig = "late-set-lowers-revision"
                        why = "it stored %d itself, a delayed SetCurrentRevision of an older fetch lowered the read revision" % own[r]
                    hits.append((where + ": read began when the leader had committed %d, was served at %d (%d of %d keys visible): %s"
                                 % (begin[r], rev, n, begin[r] - base, why), sig))
    return hits


def split_schedules(case):
    """The schedules of a packed case as separate cases (for replay files)."""
    res, cur = [], []
    for ln in case.lines:
        if ln.startswith("cfg") and cur:
            res.append(cur)
            cur = []
        cur.append(ln)
    if cur:
        res.append(cur)
    # a schedule replayed on its own starts a fresh process: the leader is at INIT again
    return [core.Case(SUITE, ["cfg init=%d base=%d" % (INIT, INIT)] + x[1:], case.meta).run() for x in res]


# ---------------------------------------------------------------- the check

def check(rep, tier, seed):
    quick = tier == "quick"
    # the handler list: from the model's regenerated table, and it must be the harness's own list
    hc = core.Case(SUITE, ["cfg init=%d" % INIT, "handlers"]).run()
    rep.count_case(hc, nontrivial=False)
    if hc.diff() is not None or len(hc.model) < 2 or not hc.model[1].startswith("handlers "):
        core.handle_diff(rep, "C18", "handler-list", hc)
        return
    handlers = hc.model[1].split()[1].split(",")
    missing = [h for h in REQUIRED if h not in handlers]
    if missing:
        rep.violation(core.write_replay("C18", "handlers-missing", case=hc,
                                        text="# required handlers missing from the extracted table: %s" % missing), no_input=True)
        return

    tcases = table_cases(handlers)
    r = random.Random("c18/%d" % seed)
    scheds = enum_schedules(1, 2) + enum_schedules(2, 1)
    scheds += [s for s in enum_schedules(1, 1, modes=("ok", "err", "down"))]
    if quick:
        scheds = one_per_class(scheds)
        scheds += [random_schedule(r, 2, 1, ("ok", "err", "down")) for _ in range(120)]
        scheds += [random_schedule(r, 3, r.choice([1, 2]), ("ok", "ok", "err", "down")) for _ in range(260)]
        pack = 12
    else:
        scheds += enum_schedules(2, 2)
        scheds += [random_schedule(r, 2, 2, ("ok", "err", "down")) for _ in range(1500)]
        scheds += [random_schedule(r, 3, r.choice([1, 2, 3]), ("ok", "ok", "err", "down")) for _ in range(6000)]
        pack = 16
    # distinct schedules only
    seen, uniq = set(), []
    for s in scheds:
        k = tuple(s)
        if k not in seen:
            seen.add(k)
            uniq.append(s)
    scases = [sched_case(uniq[i:i + pack]) for i in range(0, len(uniq), pack)]
    # every harness process of part B carries two real backends whose sequencer goroutine is a busy loop
    # (backend.collectStorageWriteEvents), and the syncer's HTTP client gives up after 1 s: do not oversubscribe
    core.run_cases(tcases)
    core.run_cases(scases, workers=max(2, (os.cpu_count() or 4) // 3))

    # pass 1: the oracles (property judged on the implementation transcripts); pass 2: model = implementation
    rows = 0
    violated = False
    for c in tcases:
        rep.count_case(c)
        rows += sum(1 for ln in c.lines if ln.startswith("req "))
        hit = table_oracle(c)
        if hit and core.handle_oracle_hit(rep, "C18", hit[1], c, hit[0], hit[1], shrink_fn=lambda x: table_oracle(x) is not None):
            violated = True
            break
    stale = {"joined-fetch-stale": 0, "late-set-lowers-revision": 0}
    served = 0
    witnesses = {}
    known_sigs = {f.get("signature") for f in core.load_known().get("findings", [])
                  if f.get("property") == "C18" and f.get("status") == "known"}
    for c in scases:
        if violated:
            break
        rep.count_case(c)
        served += sum(1 for o in c.impl if o.startswith("serve ") and " rev=" in o)
        hits = sched_oracle(c)
        for desc, sig in hits:
            stale[sig] = stale.get(sig, 0) + 1
        done = set()
        for desc, sig in hits:
            if sig in done:
                continue
            done.add(sig)

            def still(x, sig=sig):
                return any(s == sig for _, s in sched_oracle(x))
            bad = c
            if sig not in known_sigs or sig not in witnesses:
                # the single offending schedule (replay file / evidence sample)
                for one in (split_schedules(c) if c.meta["schedules"] > 1 else [c]):
                    if still(one):
                        bad = one
                        break
                witnesses.setdefault(sig, bad)
            if core.handle_oracle_hit(rep, "C18", sig, bad, desc, sig, shrink_fn=still):
                violated = True
                break
    if violated:
        return
    for c in tcases + scases:
        if not c.meta.get("oracle_only") and c.diff() is not None and c.meta["part"] == "follower":
            # the only real-time element of the scenario is the syncer's 1 s HTTP timeout: a schedule that was
            # starved of CPU for that long ends in a sync error the model does not predict; run it once more, alone
            for _ in range(3):
                rep.cov["reruns_after_diff"] = rep.cov.get("reruns_after_diff", 0) + 1
                c.run()
                if c.diff() is None:
                    break
            if sched_oracle(c) and any(sig not in known_sigs for _, sig in sched_oracle(c)):
                desc, sig = [h for h in sched_oracle(c) if h[1] not in known_sigs][0]
                core.handle_oracle_hit(rep, "C18", sig, c, desc, sig)
                return
        if not c.meta.get("oracle_only") and c.diff() is not None:
            core.handle_diff(rep, "C18", "role-table-correspondence" if c.meta["part"] == "table" else "follower-correspondence", c)
            return
    # evidence: one script of every kind, and the replayed witnesses of the known findings
    samples = []
    for c in [tcases[0]] + [x for x in tcases if x.meta["handler"] == "etcd/Txn"][:1] + scases[:1]:
        samples.append({"suite": c.suite, "part": c.meta["part"], "script": c.lines[:30], "impl_transcript": (c.impl or [])[:30]})
    for sig, w in sorted(witnesses.items()):
        if sig in known_sigs:
            core.write_replay("C18", "known-" + sig, case=w, text="# known finding (known_findings.json, signature %s): "
                              "replays on the real code; see DESIGN-C18.md" % sig)
        samples.append({"suite": w.suite, "part": "follower", "witness_of": sig, "script": w.lines, "impl_transcript": w.impl,
                        "model_transcript": w.model})
    rep.cov["samples"] = samples
    hist = {}
    for c in tcases:
        for line, out in zip(c.lines, c.impl):
            t, o = line.split(), out.split()
            if t[0] == "req" and len(o) == 5:
                k = "%s %s %s" % (KIND.get(t[1] + "/" + t[2], "other"), opts_of(t[3:])["role"], o[3])
                hist[k] = hist.get(k, 0) + 1
    for c in scases:
        for out in c.impl:
            o = out.split()
            if o and o[0] in ("enter", "serve") and len(o) >= 3:
                k = "%s %s" % (o[0], "rev" if o[2].startswith("rev=") else o[2])
                hist[k] = hist.get(k, 0) + 1
    rep.cov["outcome_histogram"] = hist
    distinct_reqs = len({ln for c in tcases for ln in c.lines if ln.startswith("req ")})
    rep.cov["evaluations"] = rows + len(uniq)
    rep.cov["distinct_nontrivial"] = distinct_reqs + len(uniq)
    rep.cov["processes"] = 1 + len(tcases) + len(scases)

    rep.cov["exhaustive"] = True
    rep.cov["rule"] = ("part A: EXHAUSTIVE product of every handler in the regenerated guard table (list cross-checked with the "
                       "harness) x request shape x role x proxy x leader behaviour, one case per handler, all distinct; "
                       "evaluations = requests of part A + schedules of part B (distinct_nontrivial: distinct request lines + distinct schedules); part B: all interleavings of 1 read + 2 leader commits and of 2 reads + 1 commit%s, plus seeded random "
                       "interleavings of 2-3 reads with leader failures; a schedule is non-trivial if it is distinct (duplicates "
                       "are dropped before running); cases pack %d schedules"
                       % (" (quick tier: one representative per placement class of the commits — a commit interacts only with "
                          "begin and answer; the thorough tier runs every interleaving)" if quick
                          else " and of 2 reads + 2 commits", pack))
    rep.cov["role_table_rows"] = rows
    rep.cov["handlers"] = len(handlers)
    rep.cov["follower_schedules"] = len(uniq)
    rep.cov["follower_reads_served"] = served
    rep.cov["stale_reads_observed"] = stale
    rep.cov["explanation"] = ("exhaustive refers to part A (finite table) and to the enumerated interleavings of part B; the random "
                              "3-read schedules are a sample")
    rep.assumptions += [
        "the etcd proxy (pkg/server/service/etcdproxy) is scripted: that it really reaches the leader is not checked here",
        "the leader's /status answer is its committed revision at the moment its handler runs (server.revisionHandler); "
        "the httptest leader mirrors that handler over a real leader backend sharing the follower's store",
        "role changes in the middle of a request are not modelled (IsLeader is read once per guard)",
        "guard analysis of kbextract (syntactic, see DESIGN-C18.md) is trusted for the theorem and cross-checked here row by row",
    ]
