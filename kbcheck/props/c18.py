"""C18 — only the leader writes and streams; followers read at its revision or fail.

Part A (exhaustive): every handler of both APIs (the list comes from the model's regenerated guard table and
must equal the harness's own list) x request shape x {leader, follower} x {proxy off, on} x {leader ok, down,
err}, run on the REAL etcd / brain server objects over a recording backend.
Part B: schedules of the follower read path (begin / flight.Do / leader answer / reply / SetCurrentRevision /
backend read, interleaved with leader commits) replayed on the real revision syncer, brain server and
backends through gates.

Part C: a follower forwarding write transactions through the REAL etcd proxy to a REAL leader (loopback gRPC) whose
answers can be lost after execution (`fwd … lose=1`): executed at most once per client request, a lost answer is
reported as Unavailable, a definite answer is truthful.
Part B starts with the two PINNED schedules of the findings this property has had: `joined-fetch-stale` (still
in the code: must reproduce, printed as KNOWN-FINDING) and `late-set-lowers-revision` (repaired in /repo by
db7d4ff, tso.Commit only raises the committed revision: the schedule must now be served FRESH and the delayed
store must not lower the read revision — otherwise VIOLATION with that schedule as replay, before anything
else is run).

The oracle judges the IMPLEMENTATION transcript; the model transcript is only compared afterwards.

Proof side besides KB.Props.C18: KB.Props.C18Cas (EXTRA_PROP_MODULES) — the revision allocator tso.go at atomic-instruction
granularity, all goroutine sets and interleavings, tied to the source by regenerated shape facts (`source_matches_lts`);
its dynamic cross-check (kbcheck/tsocas.py, harness/racetest TestTsoCas) runs last, as supporting evidence.
KB.Props.C18Gen (EXTRA_PROP_MODULES too): the repair PROPOSED for the known finding `joined-fetch-stale`
(proposed-fixes/C18-fresh-follower-read.diff, not applied to /repo) modelled as the diff is written, one atomic instruction
per step with the generation counters themselves (KB.ServerGen): with it every served follower read is fresh under any
interleaving (`follower_read_fresh_gen`), a reader goes round at most once more (`rejected_at_most_once`). It is a theorem
about the proposal - nothing in /repo corresponds to it, so no correspondence suite runs it; the finding stays known."""
import os
import random

EXTRA_PROP_MODULES = [("KB.Props.OrderC15", "KB.OrderC15"), ("KB.Props.C18Cas", "KB.C18Cas"), ("KB.Props.C18Gen", "KB.C18Gen")]

from .. import core

SUITE = "roles"
INIT = 10

# spec-side classification of the request types (independent of the extracted table)
KIND = {
    "etcd/Txn": "write", "brain/Create": "write", "brain/Update": "write", "brain/Delete": "write", "brain/Compact": "write",
    "etcd/Watch/Watch": "watch", "brain/Watch": "watch",
    "etcd/Range": "read", "etcd/Watch/List": "read", "brain/Get": "read", "brain/Range": "read", "brain/Count": "read",
    "brain/ListPartition": "read", "brain/RangeStream": "read",
}
SHAPES = {"etcd/Range": ["get", "list", "count", "partitions"],
          "etcd/Txn": ["create", "update", "delete", "compact", "invalid"]}
WRITE_M = {"Create", "Update", "Delete", "Compact"}
WATCH_M = {"Watch"}
READ_M = {"Get", "List", "Count", "GetPartitions", "ListByStream"}
REQUIRED = ["etcd/Range", "etcd/Txn", "etcd/Watch/List", "etcd/Watch/Watch", "etcd/Compact", "brain/Create", "brain/Update",
            "brain/Delete", "brain/Compact", "brain/Get", "brain/Range", "brain/Count", "brain/ListPartition",
            "brain/RangeStream", "brain/Watch"]


# the schedule of the known finding (known_findings.json, status=known): replayed on every run
PINNED_KNOWN = {
    "joined-fetch-stale": [("begin", 0), ("enter", 0), ("answer", "ok"), ("commit", None), ("begin", 1), ("enter", 1),
                           ("reply", None), ("set", 0), ("set", 1), ("serve", 1)],
}
# the schedule of the REPAIRED finding (known_findings.json, "fixed": db7d4ff): replayed on every run, must be fresh
PINNED_REPAIRED = {
    "late-set-lowers-revision": [("begin", 0), ("enter", 0), ("answer", "ok"), ("reply", None), ("commit", None),
                                 ("begin", 1), ("enter", 1), ("answer", "ok"), ("reply", None), ("set", 1), ("set", 0),
                                 ("serve", 1)],
}
# Large start revisions (one per harness process): TiKV PD timestamps (~4.4e17, float64 spacing 64) and the in-memory
# engine's UnixNano (~1.7e18, spacing 256) are far above 2^53; the first two are rounded DOWN by a float64 round trip,
# the third UP.  The model computes in Nat, so any lossy transport of the revision between the leader's /status answer
# and the follower's SetCurrentRevision shows as a stale / overtaking read and as a transcript difference.
BIG_BASES = [441234567890123479, 1758800000000000103, 441234567890123497]

# what the real code must answer on the repaired schedule (leader and follower start at INIT)
REPAIRED_EXPECT = {
    "late-set-lowers-revision": ["set r1 %d frev=%d" % (INIT + 1, INIT + 1), "set r0 %d frev=%d" % (INIT, INIT + 1),
                                 "serve r1 rev=%d n=1" % (INIT + 1)],
}


# ---------------------------------------------------------------- part A: the role table

def table_cases(handlers):
    cases = []
    for h in handlers:
        api, name = h.split("/", 1)
        lines = ["cfg init=%d" % INIT]
        for shape in SHAPES.get(h, [None]):
            for role in ("leader", "follower"):
                for proxy in (0, 1):
                    for lb in ("ok", "down", "err", "none"):     # none = the lock names no holder ("empty")
                        ln = "req %s %s role=%s proxy=%d leader=%s" % (api, name, role, proxy, lb)
                        if shape:
                            ln += " shape=" + shape
                        lines.append(ln)
        cases.append(core.Case(SUITE, lines, {"part": "table", "handler": h}))
    # request shapes outside the guard's data condition (oracle only, the decision model does not cover them):
    # a watch-create with revision >= 0 whose key does not start with "/"
    lines = ["cfg init=%d" % INIT]
    for role in ("leader", "follower"):
        for proxy in (0, 1):
            for lb in ("ok", "down", "err"):
                lines.append("req etcd Watch/Watch role=%s proxy=%d leader=%s shape=nonpure" % (role, proxy, lb))
    cases.append(core.Case(SUITE, lines, {"part": "table", "handler": "etcd/Watch/Watch", "oracle_only": True},
                           compare=lambda op: op != "req"))
    return cases


def opts_of(tokens):
    return dict(t.split("=", 1) for t in tokens if "=" in t)


def table_oracle(case):
    for i, (line, out) in enumerate(zip(case.lines, case.impl)):
        t, o = line.split(), out.split()
        if t[0] != "req":
            continue
        if len(o) != 5 or o[0] != "req" or not o[4].startswith("calls="):
            return ("line %d: %s answered %r" % (i + 1, line, out), "malformed-answer")
        h = t[1] + "/" + t[2]
        op = opts_of(t[3:])
        outcome = o[3]
        calls = [] if o[4] == "calls=-" else o[4][6:].split(",")
        kind = KIND.get(h, "other")
        where = "line %d: %s -> %s" % (i + 1, line, out)
        if op["role"] == "follower":
            if WRITE_M & set(calls):
                return (where + ": a node that is not leader applied a write to its backend", "follower-backend-write")
            if WATCH_M & set(calls):
                return (where + ": a node that is not leader served a watch from its own history", "follower-local-watch")
            nonpure = op.get("shape") == "nonpure"   # invalid request: cancelled before any role decision
            if kind in ("write", "watch") and outcome not in ("forwarded", "unavailable") and not (nonpure and outcome == "error:canceled"):
                return (where + ": a follower neither forwarded nor refused a %s request" % kind, "follower-%s-not-refused" % kind)
            if kind in ("write", "watch") and outcome == "forwarded" and op["proxy"] != "1":
                return (where + ": forwarded although the proxy is disabled", "forward-without-proxy")
            if kind == "read":
                reads = [c for c in calls if c in READ_M]
                if op["leader"] != "ok":
                    if not outcome.startswith("error") or reads:
                        return (where + ": the leader could not be reached but the read did not fail", "follower-read-without-sync")
                elif reads and ("SetCurrentRevision" not in calls or
                                calls.index("SetCurrentRevision") > min(calls.index(r) for r in reads)):
                    return (where + ": backend read before the leader's revision was adopted", "follower-read-before-sync")
        else:
            if outcome in ("forwarded", "unavailable", "error:sync") or (outcome == "error:canceled" and op.get("shape") != "nonpure"):
                return (where + ": the leader did not serve the request itself", "leader-refuses")
        if kind == "other" and calls:
            return (where + ": a stub handler touched the backend", "stub-touches-backend")
    return None


# ---------------------------------------------------------------- part B: follower schedules

class Sim:
    """Enabling conditions only (which script steps make sense next); the expected answers come from the Lean model."""

    def __init__(self, nreads, ncommits):
        self.ph = []
        self.flight = "none"
        self.waiting = set()
        self.commits = ncommits
        self.nreads = nreads

    def enabled(self, modes):
        st = []
        if len(self.ph) < self.nreads:
            st.append(("begin", len(self.ph)))
        for r, p in enumerate(self.ph):
            if p == "begun":
                st.append(("enter", r))
            elif p == "got":
                st.append(("set", r))
            elif p == "synced":
                st.append(("serve", r))
        if self.flight == "pending":
            st += [("answer", m) for m in modes]
        if self.flight.startswith("answered"):
            st.append(("reply", None))
        if self.commits > 0:
            st.append(("commit", None))
        return st

    def apply(self, op, a):
        if op == "begin":
            self.ph.append("begun")
        elif op == "enter":
            self.ph[a] = "waiting"
            self.waiting.add(a)
            if self.flight == "none":
                self.flight = "pending"
        elif op == "answer":
            self.flight = "answered:" + a
        elif op == "reply":
            ok = self.flight.endswith(":ok")
            for r in self.waiting:
                self.ph[r] = "got" if ok else "failed"
            self.waiting = set()
            self.flight = "none"
        elif op == "set":
            self.ph[a] = "synced"
        elif op == "serve":
            self.ph[a] = "done"
        elif op == "commit":
            self.commits -= 1

    def copy(self):
        s = Sim(self.nreads, self.commits)
        s.ph, s.flight, s.waiting = list(self.ph), self.flight, set(self.waiting)
        return s


def enum_schedules(nreads, ncommits, modes=("ok",)):
    out = []

    def rec(sim, sched):
        st = sim.enabled(modes)
        if not st:
            out.append(sched)
            return
        for op, a in st:
            s2 = sim.copy()
            s2.apply(op, a)
            rec(s2, sched + [(op, a)])
    rec(Sim(nreads, ncommits), [])
    return out


def commit_class(sched):
    """Two schedules that differ only in where a leader commit sits between two steps that do not look at the
    leader's revision are the same experiment: a commit interacts only with `begin` (records the revision at
    which the read began) and `answer` (publishes the revision).  Key = the schedule without its commits + the
    number of commits each begin/answer has seen."""
    commits, k = 0, []
    for op, a in sched:
        if op == "commit":
            commits += 1
        elif op in ("begin", "answer"):
            k.append((op, a, commits))
        else:
            k.append((op, a))
    return tuple(k)


def one_per_class(scheds):
    seen, out = set(), []
    for s in scheds:
        k = commit_class(s)
        if k not in seen:
            seen.add(k)
            out.append(s)
    return out


def random_schedule(r, nreads, ncommits, modes):
    sim, sched = Sim(nreads, ncommits), []
    while True:
        st = sim.enabled(modes)
        if not st:
            return sched
        # prefer overlap: delay stores and serves a little, answer mostly ok
        w = [(0.5 if op in ("set", "serve") else 0.4 if (op == "answer" and a != "ok") else 1.0) for op, a in st]
        op, a = r.choices(st, weights=w)[0]
        sim.apply(op, a)
        sched.append((op, a))


def sched_lines(sched, init=INIT, base=INIT):
    lines = ["cfg init=%d base=%d" % (init, base)]
    for op, a in sched:
        if op in ("begin", "enter", "set", "serve"):
            lines.append("%s r%d" % (op, a))
        elif op == "answer":
            lines.append("answer" if a == "ok" else "answer mode=%s" % a)
        else:
            lines.append(op)
    # failed reads are asked for their result too
    lines.append("state")
    return lines


def sched_case(scheds, base=INIT):
    """`base`: the revision both nodes start at (one per harness process: its leader backend lives as long as the
    process).  Large bases (TiKV PD timestamps ~4.4e17, memkv UnixNano ~1.7e18) exercise the transport of the
    revision from the leader's /status answer into the follower's SetCurrentRevision bit by bit."""
    lines = []
    init = base
    for s in scheds:
        # the harness process keeps one leader backend: the next schedule starts where this one's commits end
        lines += sched_lines(s, init, base)
        init += sum(1 for op, _ in s if op == "commit")
        # every read reports how it ended
        n = sum(1 for op, _ in s if op == "begin")
        served = {a for op, a in s if op == "serve"}
        lines += ["serve r%d" % i for i in range(n) if i not in served]
    return core.Case(SUITE, lines, {"part": "follower", "schedules": len(scheds), "base": base})


def sched_oracle(case):
    """-> list of (description, signature) hits on the implementation transcript: one per stale read first, then
    the other laws of the read path: the revision a read adopts is the one the leader answered to its fetch (bit
    by bit), SetCurrentRevision never lowers the follower's read revision (/repo db7d4ff), a read is not served
    above the leader's committed revision, a read whose fetch failed fails."""
    hits, other = [], []
    frev = leader = None
    begin, own, failed_fetch, cur, base = {}, {}, set(), None, INIT
    flight_readers, late, delivered = set(), set(), {}
    bad_mode = answered = False
    for i, (line, out) in enumerate(zip(case.lines, case.impl)):
        t, o = line.split(), out.split()
        where = "line %d (schedule starting at line %d): %s -> %s" % (i + 1, (cur or 0) + 1, line, out)
        if t[0] == "cfg":
            begin, own, failed_fetch, flight_readers, late, delivered = {}, {}, set(), set(), set(), {}
            bad_mode = answered = False
            cur = i
            base = int(opts_of(t[1:]).get("base", INIT))
            frev = leader = int(opts_of(t[1:]).get("init", INIT))   # cfg: the follower starts at the leader's revision
        elif t[0] == "commit" and len(o) == 2 and o[1].isdigit():
            leader = int(o[1])
        elif t[0] == "begin" and len(o) == 3 and o[2].startswith("at="):
            begin[t[1]] = int(o[2][3:])
        elif t[0] == "enter" and len(o) == 3 and o[2] in ("start", "join"):
            flight_readers.add(t[1])
            if o[2] == "join" and answered:
                late.add(t[1])      # joined a fetch the leader had already answered
        elif t[0] == "answer":
            bad_mode = len(o) == 2 and o[1] in ("err", "down")
            answered = True
        elif t[0] == "reply" and len(o) == 3:
            if bad_mode:
                failed_fetch |= flight_readers
            elif o[1].isdigit() and o[2].startswith("reads="):
                for r in o[2][6:].split(","):
                    delivered[r] = int(o[1])
            flight_readers, bad_mode, answered = set(), False, False
        elif t[0] == "set" and len(o) == 4 and o[2].isdigit():
            r = t[1]
            own[r] = int(o[2])
            if r in delivered and own[r] != delivered[r]:
                other.append((where + ": the leader answered %d to this read's fetch but the follower adopted %d (off by %+d)"
                              % (delivered[r], own[r], own[r] - delivered[r]), "adopted-revision-differs-from-leader-answer"))
            if o[3].startswith("frev=") and o[3][5:].isdigit():
                now = int(o[3][5:])
                if frev is not None and (now < frev or now < own[r]):
                    other.append((where + ": the follower's read revision was %d before this SetCurrentRevision(%d) and is %d "
                                  "after it: the store is not monotone" % (frev, own[r], now), "read-revision-lowered"))
                frev = now
        elif t[0] == "serve":
            r = t[1]
            if r in failed_fetch:
                if len(o) < 3 or not o[2].startswith("error") or "read=1" in o:
                    hits.append((where + ": the leader could not be reached for this read's fetch but the read did not fail",
                                 "read-served-after-failed-sync"))
                continue
            if len(o) == 4 and o[2].startswith("rev=") and r in begin:
                rev, n = int(o[2][4:]), int(o[3][2:])
                if rev < begin[r]:
                    if r in late:
                        sig = "joined-fetch-stale"
                        why = "it joined a single-flight fetch the leader had answered (%d) before the read began" % own.get(r, rev)
                    elif own.get(r, rev) >= begin[r]:
                        sig = "late-set-lowers-revision"
                        why = "it stored %d itself, a delayed SetCurrentRevision of an older fetch lowered the read revision" % own[r]
                    else:
                        sig = "own-fetch-stale"
                        why = ("it ran its own fetch (the leader answered %s) and adopted %d, below the leader's committed "
                               "revision when it began" % (delivered.get(r, "?"), own.get(r, rev)))
                    hits.append((where + ": read began when the leader had committed %d, was served at %d (%d of %d keys visible): %s"
                                 % (begin[r], rev, n, begin[r] - base, why), sig))
                elif leader is not None and rev > leader:
                    other.append((where + ": read served at %d, above the leader's committed revision %d" % (rev, leader),
                                  "read-ahead-of-leader"))
    return hits + other


def split_schedules(case):
    """The schedules of a packed case as separate cases (for replay files)."""
    res, cur = [], []
    for ln in case.lines:
        if ln.startswith("cfg") and cur:
            res.append(cur)
            cur = []
        cur.append(ln)
    if cur:
        res.append(cur)
    # a schedule replayed on its own starts a fresh process: the leader is at the base again
    base = case.meta.get("base", INIT)
    return [core.Case(SUITE, ["cfg init=%d base=%d" % (base, base)] + x[1:], case.meta).run() for x in res]


# ---------------------------------------------------------------- part C: forwarded write transactions

FWD_FIXED = [
    "fwd create k=1", "fwd create k=1", "fwd update k=1", "fwd update k=1 stale=1", "fwd update k=2", "fwd update k=2 stale=1",
    "fwd create k=2 lose=1", "fwd create k=2", "fwd create k=2 lose=1", "fwd update k=2 lose=1", "fwd update k=2",
    "fwd update k=1 stale=1 lose=1", "fwd update k=3 lose=1", "fwd create k=3 lose=1", "fwd update k=3", "fwd update k=3 lose=1",
]


FWD_WATCH = ["fwd watch k=1 delay=150", "fwd watch k=2", "fwd create k=1", "fwd watch k=3 delay=80", "fwd update k=1", "fwd watch k=4 delay=200",
             "fwd noleader k=5", "fwd create k=6", "fwd noleader k=7"]


def fwd_cases(r, quick):
    cases = [core.Case(SUITE, ["cfg init=%d" % INIT] + FWD_FIXED, {"part": "forward"}),
             # a watch from "now" forwarded through the follower's proxy, the leader's stream handler starting late:
             # Created must mean "subscribed at the leader" (C05 through the configuration C18 describes)
             core.Case(SUITE, ["cfg init=%d" % INIT] + FWD_WATCH, {"part": "forward"})]
    for _ in range(4 if quick else 40):
        lines = ["cfg init=%d" % INIT]
        for _ in range(40):
            shape = r.choice(["create", "update", "update"])
            ln = "fwd %s k=%d" % (shape, r.randint(1, 4))
            if shape == "update" and r.random() < 0.25:
                ln += " stale=1"
            if r.random() < 0.4:
                ln += " lose=1"
            lines.append(ln)
        cases.append(core.Case(SUITE, lines, {"part": "forward"}))
    return cases


def fwd_oracle(case):
    """One client request = one line.  Judged on the implementation transcript only."""
    for i, (line, out) in enumerate(zip(case.lines, case.impl)):
        t, o = line.split(), out.split()
        if t[0] != "fwd":
            continue
        where = "line %d: %s -> %s" % (i + 1, line, out)
        if t[1] == "noleader":
            if "refused=3" not in o:
                return (where + ": a follower whose proxy knows no leader did not refuse a forwarded watch as unavailable", "forward-without-leader")
            if "recovered=1" not in o:
                return (where + ": after refusing requests while no leader was known, the follower's proxy never forwards again although "
                        "the election names the leader" + (" - its calls do not even return when their context ends (wedged)" if "hung=1" in o else ""),
                        "proxy-wedged-after-refusal")
            continue
        if t[1] == "watch":
            if o[:3] == ["fwd", "watch", "created"] and "delivered=0" in o:
                return (where + ": the follower answered Created for a forwarded watch from `now`, the write issued after that was "
                        "acknowledged by the leader and never delivered on the open stream", "forwarded-watch-created-before-subscribed")
            continue
        f = opts_of(o[3:]) if len(o) == 6 else {}
        if len(o) != 6 or o[0] != "fwd" or o[1] != t[1] or not f.get("exec", "").isdigit() or f.get("applied") not in ("0", "1"):
            return (where + ": malformed answer", "malformed-answer")
        ans, execs, applied, lose = o[2], int(f["exec"]), f["applied"] == "1", opts_of(t[2:]).get("lose") == "1"
        if execs > 1:
            return (where + ": the leader executed the forwarded transaction %d times for ONE client request%s"
                    % (execs, " and the client was told its condition FAILED although its write took effect" if ans == "failed" and applied else ""),
                    "forwarded-txn-executed-twice")
        if f.get("local") != "-" and WRITE_M & set(f["local"].split(",")):
            return (where + ": the follower applied the write to its own backend", "follower-backend-write")
        if ans == "failed" and applied:
            return (where + ": the client was told its condition failed but its write took effect", "forward-failed-but-applied")
        if ans == "ok" and not applied:
            return (where + ": the client was told its write succeeded but the key does not hold its value", "forward-ok-but-not-applied")
        if lose and ans != "unavailable":
            return (where + ": the leader's answer was lost (the forwarded call ended with Unavailable) but the client got a definite answer",
                    "forward-lost-answer-definite")
        if not lose and (ans not in ("ok", "failed") or execs != 1):
            return (where + ": an undisturbed forwarded transaction was not answered by the leader's single execution", "forward-not-served")
    return None


# ---------------------------------------------------------------- the check

def check_main(rep, tier, seed):
    quick = tier == "quick"
    # the handler list: from the model's regenerated table, and it must be the harness's own list
    hc = core.Case(SUITE, ["cfg init=%d" % INIT, "handlers"]).run()
    rep.count_case(hc, nontrivial=False)
    if hc.diff() is not None or len(hc.model) < 2 or not hc.model[1].startswith("handlers "):
        core.handle_diff(rep, "C18", "handler-list", hc)
        return
    handlers = hc.model[1].split()[1].split(",")
    missing = [h for h in REQUIRED if h not in handlers]
    if missing:
        rep.violation(core.write_replay("C18", "handlers-missing", case=hc,
                                        text="# required handlers missing from the extracted table: %s" % missing), no_input=True)
        return

    known_sigs = {f.get("signature") for f in core.load_known().get("findings", [])
                  if f.get("property") == "C18" and f.get("status") == "known"}
    witnesses = {}
    # the pinned schedules, before anything else: a tree that lost the db7d4ff repair is reported at once
    pinned = [(sig, True, sched_case([sc])) for sig, sc in sorted(PINNED_KNOWN.items())] + \
             [(sig, False, sched_case([sc])) for sig, sc in sorted(PINNED_REPAIRED.items())]
    for _, _, c in pinned:
        c.meta["part"] = "pinned"
    core.run_cases([c for _, _, c in pinned], workers=2)
    for sig, known, c in pinned:
        rep.count_case(c)
        hits = sched_oracle(c)
        if known:
            if sig not in known_sigs:
                raise RuntimeError("known_findings.json has no status=known entry for C18 %s" % sig)
            mine = [h for h in hits if h[1] == sig]
            if mine:
                witnesses[sig] = c
                core.handle_oracle_hit(rep, "C18", sig, c, mine[0][0], sig)      # -> KNOWN-FINDING
                hits = [h for h in hits if h[1] != sig]
            elif c.diff() is not None:
                # the recorded defect does not reproduce any more: the model (and known_findings.json) are out of date
                core.handle_diff(rep, "C18", "known-%s-not-reproduced" % sig, c)
                return
        if hits:
            # late-set-lowers-revision / read-revision-lowered on the pinned schedule: the repair is gone
            desc, hsig = hits[0]

            def still(x, hsig=hsig):
                return any(s_ == hsig for _, s_ in sched_oracle(x))
            core.handle_oracle_hit(rep, "C18", hsig, c, desc, hsig, shrink_fn=still)
            if rep.violations:
                return
        if not known:
            missing_out = [x for x in REPAIRED_EXPECT[sig] if x not in (c.impl or [])]
            if missing_out or c.diff() is not None:
                rep.violation(core.write_replay("C18", "repaired-%s-not-fresh" % sig, case=c,
                                                text="# oracle: the schedule of the repaired finding %s must be served fresh by the real "
                                                     "syncer (expected transcript lines %s, missing %s)" % (sig, REPAIRED_EXPECT[sig], missing_out)))
                return
            witnesses["repaired-" + sig] = c

    tcases = table_cases(handlers)
    r = random.Random("c18/%d" % seed)
    scheds = enum_schedules(1, 2) + enum_schedules(2, 1)
    scheds += [s for s in enum_schedules(1, 1, modes=("ok", "err", "down"))]
    if quick:
        scheds = one_per_class(scheds)
        scheds += [random_schedule(r, 2, 1, ("ok", "err", "down")) for _ in range(120)]
        scheds += [random_schedule(r, 3, r.choice([1, 2]), ("ok", "ok", "err", "down")) for _ in range(260)]
        pack = 12
    else:
        scheds += enum_schedules(2, 2)
        scheds += [random_schedule(r, 2, 2, ("ok", "err", "down")) for _ in range(1500)]
        scheds += [random_schedule(r, 3, r.choice([1, 2, 3]), ("ok", "ok", "err", "down")) for _ in range(6000)]
        pack = 16
    # distinct schedules only
    seen, uniq = set(), []
    for s in scheds:
        k = tuple(s)
        if k not in seen:
            seen.add(k)
            uniq.append(s)
    scases = [sched_case(uniq[i:i + pack]) for i in range(0, len(uniq), pack)]
    # the same read path at large revisions: a separate process per case (the base is process-wide)
    big = list(PINNED_KNOWN.values()) + list(PINNED_REPAIRED.values()) + one_per_class(enum_schedules(1, 2)) + \
        one_per_class(enum_schedules(1, 1, modes=("ok", "err", "down")))
    nbig, bigcases = 0, []
    for bi, b in enumerate(BIG_BASES):
        rb = random.Random("c18/big/%d/%d" % (seed, bi))
        mine = big + [random_schedule(rb, 2, rb.choice([1, 2]), ("ok", "ok", "ok", "err", "down")) for _ in range(15 if quick else 300)]
        nbig += len(mine)
        bigcases += [sched_case(mine[i:i + pack], base=b) for i in range(0, len(mine), pack)]
    scases = bigcases + scases
    # every harness process of part B carries two real backends whose sequencer goroutine is a busy loop
    # (backend.collectStorageWriteEvents), and the syncer's HTTP client gives up after 1 s: do not oversubscribe
    fcases = fwd_cases(random.Random("c18/fwd/%d" % seed), quick)
    core.run_cases(tcases + fcases)
    for c in fcases:
        rep.count_case(c)
        hit = fwd_oracle(c)
        if hit:
            def same(x, sig=hit[1], worst="took effect" in hit[0]):
                h = fwd_oracle(x)      # keep the most telling form: a definite "failed" for a write that took effect
                return h is not None and h[1] == sig and ("took effect" in h[0]) == worst
            if core.handle_oracle_hit(rep, "C18", hit[1], c, hit[0], hit[1], shrink_fn=same):
                return
    core.run_cases(scases, workers=max(2, (os.cpu_count() or 4) // 3))

    # pass 1: the oracles (property judged on the implementation transcripts); pass 2: model = implementation
    rows = 0
    violated = False
    for c in tcases:
        rep.count_case(c)
        rows += sum(1 for ln in c.lines if ln.startswith("req "))
        hit = table_oracle(c)
        if hit and core.handle_oracle_hit(rep, "C18", hit[1], c, hit[0], hit[1], shrink_fn=lambda x: table_oracle(x) is not None):
            violated = True
            break
    stale = {"joined-fetch-stale": 0, "late-set-lowers-revision": 0, "read-revision-lowered": 0}
    served = 0
    for c in scases:
        if violated:
            break
        rep.count_case(c)
        served += sum(1 for o in c.impl if o.startswith("serve ") and " rev=" in o)
        hits = sched_oracle(c)
        for desc, sig in hits:
            stale[sig] = stale.get(sig, 0) + 1
        done = set()
        for desc, sig in hits:
            if sig in done:
                continue
            done.add(sig)

            def still(x, sig=sig):
                return any(s == sig for _, s in sched_oracle(x))
            bad = c
            if sig not in known_sigs or sig not in witnesses:
                # the single offending schedule (replay file / evidence sample)
                for one in (split_schedules(c) if c.meta["schedules"] > 1 else [c]):
                    if still(one):
                        bad = one
                        break
                witnesses.setdefault(sig, bad)
            if core.handle_oracle_hit(rep, "C18", sig, bad, desc, sig, shrink_fn=still):
                violated = True
                break
    if violated:
        return
    for c in tcases + fcases + scases:
        if not c.meta.get("oracle_only") and c.diff() is not None and c.meta["part"] == "follower":
            # the only real-time element of the scenario is the syncer's 1 s HTTP timeout: a schedule that was
            # starved of CPU for that long ends in a sync error the model does not predict; run it once more, alone
            for _ in range(3):
                rep.cov["reruns_after_diff"] = rep.cov.get("reruns_after_diff", 0) + 1
                c.run()
                if c.diff() is None:
                    break
            if sched_oracle(c) and any(sig not in known_sigs for _, sig in sched_oracle(c)):
                desc, sig = [h for h in sched_oracle(c) if h[1] not in known_sigs][0]
                core.handle_oracle_hit(rep, "C18", sig, c, desc, sig)
                return
        if not c.meta.get("oracle_only") and c.diff() is not None:
            core.handle_diff(rep, "C18", {"table": "role-table-correspondence", "forward": "forward-correspondence"}.get(
                c.meta["part"], "follower-correspondence"), c)
            return
    # evidence: one script of every kind, and the replayed witnesses of the known findings
    samples = []
    for c in [tcases[0]] + [x for x in tcases if x.meta["handler"] == "etcd/Txn"][:1] + scases[:1]:
        samples.append({"suite": c.suite, "part": c.meta["part"], "script": c.lines[:30], "impl_transcript": (c.impl or [])[:30]})
    for sig, w in sorted(witnesses.items()):
        if sig in known_sigs:
            core.write_replay("C18", "known-" + sig, case=w, text="# known finding (known_findings.json, signature %s): "
                              "replays on the real code; see DESIGN-C18.md" % sig)
        samples.append({"suite": w.suite, "part": "follower", "witness_of": sig, "script": w.lines, "impl_transcript": w.impl,
                        "model_transcript": w.model})
    rep.cov["samples"] = samples
    hist = {}
    for c in tcases:
        for line, out in zip(c.lines, c.impl):
            t, o = line.split(), out.split()
            if t[0] == "req" and len(o) == 5:
                k = "%s %s %s" % (KIND.get(t[1] + "/" + t[2], "other"), opts_of(t[3:])["role"], o[3])
                hist[k] = hist.get(k, 0) + 1
    for c in scases:
        for out in c.impl:
            o = out.split()
            if o and o[0] in ("enter", "serve") and len(o) >= 3:
                k = "%s %s" % (o[0], "rev" if o[2].startswith("rev=") else o[2])
                hist[k] = hist.get(k, 0) + 1
    rep.cov["outcome_histogram"] = hist
    distinct_reqs = len({ln for c in tcases for ln in c.lines if ln.startswith("req ")})
    rep.cov["evaluations"] = rows + len(uniq) + nbig + len(pinned)
    rep.cov["distinct_nontrivial"] = distinct_reqs + len(uniq) + nbig
    rep.cov["processes"] = 1 + len(pinned) + len(tcases) + len(fcases) + len(scases)

    rep.cov["exhaustive"] = True
    rep.cov["rule"] = ("part A: EXHAUSTIVE product of every handler in the regenerated guard table (list cross-checked with the "
                       "harness) x request shape x role x proxy x leader behaviour, one case per handler, all distinct; "
                       "part C: a fixed script covering create / guarded update x key absent / present x guard right / stale x answer "
                       "delivered / lost, plus seeded random scripts of 40 forwarded transactions over 4 keys (real etcd proxy, real leader "
                       "over gRPC); evaluations = requests of part A + schedules of part B (distinct_nontrivial: distinct request lines + distinct schedules); part B: the pinned schedules of the known finding joined-fetch-stale (must reproduce) and of the repaired finding late-set-lowers-revision (must be fresh, read revision must not go back), then all interleavings of 1 read + 2 leader commits and of 2 reads + 1 commit%s, plus seeded random "
                       "interleavings of 2-3 reads with leader failures; the pinned, the 1-read and seeded random 2-read schedules again "
                       "with both nodes starting at each of three revisions above 2^53 (a TiKV-sized one that a float64 round trip "
                       "rounds down, one that it rounds up, a UnixNano-sized one); a schedule is non-trivial if it is distinct (duplicates "
                       "are dropped before running); cases pack %d schedules"
                       % (" (quick tier: one representative per placement class of the commits — a commit interacts only with "
                          "begin and answer; the thorough tier runs every interleaving)" if quick
                          else " and of 2 reads + 2 commits", pack))
    rep.cov["role_table_rows"] = rows
    fw = [out.split() for c in fcases for ln, out in zip(c.lines, c.impl) if ln.startswith("fwd ") and " exec=" in out]
    rep.cov["forwarded_txns"] = {"requests": len(fw), "answers": {a: sum(1 for o in fw if o[2] == a) for a in sorted({o[2] for o in fw})},
                                 "lost_answers": sum(1 for c in fcases for ln in c.lines if "lose=1" in ln),
                                 "max_leader_executions_per_request": max([int(opts_of(o[3:])["exec"]) for o in fw] or [0])}
    rep.cov["handlers"] = len(handlers)
    rep.cov["follower_schedules"] = len(uniq) + nbig + len(pinned)
    rep.cov["follower_schedules_at_large_revisions"] = {"bases": BIG_BASES, "schedules": nbig}
    rep.cov["follower_reads_served"] = served
    rep.cov["stale_reads_observed"] = stale
    rep.cov["pinned_schedules"] = {sig: ("known finding reproduced" if known else "repaired finding: served fresh") for sig, known, _ in pinned}
    rep.cov["explanation"] = ("exhaustive refers to part A (finite table) and to the enumerated interleavings of part B; the random "
                              "3-read schedules are a sample")
    rep.assumptions += [
        "part A scripts the etcd proxy (only THAT a handler forwards is observed there); part C runs the real etcdproxy.NewEtcdProxy "
        "towards a real leader on a loopback gRPC listener; a lost answer is injected by the leader's unary interceptor (handler "
        "runs, the call is answered codes.Unavailable 'transport is closing')",
        "the leader's /status answer is its committed revision at the moment its handler runs (server.revisionHandler); "
        "the httptest leader mirrors that handler over a real leader backend sharing the follower's store",
        "role changes in the middle of a request are not modelled (IsLeader is read once per guard)",
        "guard analysis of kbextract (syntactic, see DESIGN-C18.md) is trusted for the theorem and cross-checked here row by row",
    ]


def check(rep, tier, seed):
    """the property's own suites, then (when they found nothing) the dynamic cross-check of the revision allocator whose
    atomic-instruction proof is KB.Props.C18Cas (EXTRA_PROP_MODULES): supporting evidence, kbcheck/tsocas.py"""
    from .. import tsocas
    res = check_main(rep, tier, seed)
    if not rep.violations:
        tsocas.run_dynamic(rep, "C18", seed)
    return res
