"""C10 — encoding reversible and order-preserving: theorems KB.Props.C10 + `coder` correspondence, and the range-bound
encoding (`backend.encodeRangeBound`, unexported: observed through `GetPartitions` of a one-partition engine, which
answers exactly [encodeRangeBound(key), encodeRangeBound(end)]) judged by the property itself: for every sampled key over
the alphabet and revision, the record lies between the encoded bounds iff the raw key lies between the raw bounds."""
import struct

from .. import core, hist
from ..gen import hx, rand_key, rng_for

MAGIC = b"\x57\xfb\x80\x8b"


def enc(k, rev):
    return MAGIC + k + b"$" + struct.pack(">Q", rev)


def rand_bound(r, k):
    """a raw range bound related to the key k: the key, its successor, any low byte behind it or behind a prefix of it,
    a low byte in the middle, a bound starting with a low byte, arbitrary bytes"""
    x = r.random()
    if x < 0.15:
        return k
    if x < 0.25:
        return k + b"\x00"
    if x < 0.55:
        return k + r.choice(hist.LOW_TAILS)
    if x < 0.65:
        cut = r.randint(0, len(k))
        return k[:cut] + bytes([r.randint(0, 0x24)]) + k[cut:] + bytes(r.randint(0, 255) for _ in range(r.randint(0, 2)))
    if x < 0.75:
        return r.choice(hist.LOW_HEADS) + (k if r.random() < 0.5 else b"")
    if x < 0.85:
        return k + rand_key(r, True, 2)
    return bytes(r.randint(0, 255) for _ in range(r.randint(1, 6)))


def gen_bound_script(r, n):
    lines = [hist.cfg_line("memkv")]
    meta = []
    for _ in range(n):
        k = rand_key(r, True, 5)
        a, b = rand_bound(r, k), rand_bound(r, r.choice([k, k, rand_key(r, True, 5)]))
        lines.append("parts %s %s" % (hx(a), hx(b)))
        meta.append(k)
    return lines, meta


def probes(a, b, k):
    """keys over the alphabet around the bounds: the key, prefixes of the bounds up to their first low byte, those with
    the smallest / largest alphabet byte appended, neighbours"""
    out = set([k, b"", b"\x25", b"\xff"])
    for x in (a, b, k):
        p = bytearray()
        for c in x:
            if c <= 0x24:
                break
            p.append(c)
        p = bytes(p)
        for y in (p, x if all(c > 0x24 for c in x) else p):
            out.update([y, y + b"\x25", y + b"\xff", y + b"/", y[:-1]])
            if y and y[-1] < 0xff:
                out.add(y[:-1] + bytes([y[-1] + 1]))
            if y and y[-1] > 0x25:
                out.add(y[:-1] + bytes([y[-1] - 1]))
    return [p for p in out if all(c > 0x24 for c in p)]


def bound_oracle(case):
    """the property on the implementation's transcript alone"""
    for i, (ln, out) in enumerate(zip(case.lines, case.impl)):
        t, o = ln.split(), out.split()
        if t[0] != "parts" or len(o) != 2 or "," not in o[1]:
            continue
        a, b = hist.unhx(t[1]), hist.unhx(t[2])
        ps = o[1].split(",")
        ea, eb = hist.unhx(ps[0]), hist.unhx(ps[-1])
        if a < b and ea > eb:
            return "line %d: %s -> %s: raw bounds ascend, encoded bounds descend" % (i + 1, ln, out)
        for k in probes(a, b, case.meta["keys"][i - 1]):
            for rev in (0, 1, 2 ** 64 - 1):
                e = enc(k, rev)
                if (ea <= e) != (a <= k):
                    return ("line %d: %s -> %s: the record (%s, %d) is %s the encoded lower bound, the raw key is %s the raw bound"
                            % (i + 1, ln, out, hx(k), rev, "at/above" if ea <= e else "below", "at/above" if a <= k else "below"))
                if (e < eb) != (k < b):
                    return ("line %d: %s -> %s: the record (%s, %d) is %s the encoded upper bound, the raw key is %s the raw bound"
                            % (i + 1, ln, out, hx(k), rev, "below" if e < eb else "at/above", "below" if k < b else "at/above"))
    return None

REVS = [0, 1, 2, 255, 256, 1000, 2 ** 32, 2 ** 63, 2 ** 64 - 1]


def gen_script(r, n, malformed):
    lines = []
    for _ in range(n):
        k1 = rand_key(r, alphabet_only=not malformed)
        k2 = rand_key(r, alphabet_only=not malformed)
        if r.random() < 0.3:
            k2 = k1 + rand_key(r, True, 2)      # mutually-prefix keys
        if r.random() < 0.1:
            k2 = k1
        r1 = r.choice(REVS) if r.random() < 0.5 else r.randrange(2 ** 64)
        r2 = r.choice(REVS) if r.random() < 0.5 else r.randrange(2 ** 64)
        op = r.random()
        if op < 0.25:
            lines.append("enc %s %d" % (hx(k1), r1))
        elif op < 0.45:
            lines.append("cmpenc %s %d %s %d" % (hx(k1), r1, hx(k2), r2))
        elif op < 0.55:
            lines.append("cmp %s %s" % (hx(k1), hx(k2)))
        elif op < 0.7:
            lines.append("pend %s" % hx(k1))
        elif op < 0.8:
            lines.append("hasprefix %s %s" % (hx(k2), hx(k1)))
        elif op < 0.9:
            b = bytes(r.randint(0, 255) for _ in range(r.choice([0, 7, 8, 8, 9, 9, 10])))
            lines.append("prev %s" % hx(b))
        else:
            # decode: well-formed, truncated (down to nothing: /repo 5ace897), wrong magic, wrong split byte
            ik = b"\x57\xfb\x80\x8b" + k1 + b"$" + struct.pack(">Q", r1)
            m = r.random()
            if m < 0.2:
                ik = ik[:r.randint(0, len(ik))]
            elif m < 0.26:
                ik = ik[:r.choice([0, 1, 3, 4, 5, 8, 9, 12, 13])]
            elif m < 0.28:
                ik = (b"\x57\xfb\x80\x8b" + b"$" + struct.pack(">Q", r1))[:r.choice([12, 13])]
            elif m < 0.3:
                ik = b"\x57\xfb\x80\x8c" + ik[4:]
            elif m < 0.4 and len(ik) >= 9:
                ik = ik[:-9] + b"%" + ik[-8:]
            lines.append("dec %s" % hx(ik))
    return lines


def oracle(case):
    """C10 on the implementation's transcript alone: round trip and order on the sampled points.
    Returns a description of a failing input or None."""
    enc = {}
    for ln, out in zip(case.lines, case.impl):
        t = ln.split()
        o = out.split()
        if t[0] == "dec" and o[:2] == ["dec", "panic"]:
            return "Decode(%s) indexes out of range (a key too short to be an internal key must be reported as an error)" % t[1]
        if t[0] == "enc" and len(o) == 2:
            k = bytes.fromhex(t[1]) if t[1] != "-" else b""
            want = b"\x57\xfb\x80\x8b" + k + b"$" + struct.pack(">Q", int(t[2]))
            # the reference here is the *property* (decodability and order), checked through cmpenc/dec
            enc[(t[1], t[2])] = o[1]
        if t[0] == "cmpenc" and len(o) == 2 and not case.meta.get("malformed"):
            k1 = bytes.fromhex(t[1]) if t[1] != "-" else b""
            k2 = bytes.fromhex(t[3]) if t[3] != "-" else b""
            a, b = (k1, int(t[2])), (k2, int(t[4]))
            exp = "lt" if a < b else ("gt" if a > b else "eq")
            if o[1] != exp:
                return "encoded order of (%s,%s) vs (%s,%s) is %s, (key,revision) order is %s" % (t[1], t[2], t[3], t[4], o[1], exp)
    return None


def enclosure_case(seed, i):
    """the last clause through the read path that USES the bounds: a family of keys that are prefixes of one another or differ in
    the byte after a common prefix, and List over [K, E) for every K of the family and E = K + one byte of the alphabet, K + \x00,
    another key of the family, the end of the directory - the answer is exactly the live keys k with K <= k < E (the generic
    snapshot oracle of hist.check_reads), whichever way the request is dispatched"""
    r = rng_for(seed, "c10e/%d" % i)
    base = r.choice([b"/r/a", b"/r/p/q", b"/r/k"])
    fam = [base, base + b"/x", base + b"-x", base + b"%x", base + b"a", base + b"0", base + b"\xff", base + b"/x/y", base[:-1] + bytes([base[-1] + 1])]
    r.shuffle(fam)
    keys = fam[:r.randint(5, len(fam))]
    if base not in keys:
        keys.append(base)
    sh = hist.Shadow()
    lines = [hist.cfg_line(r.choice(["memkv", "badger"]))]
    lines += hist.gen_writes(r, sh, 3 * len(keys), keys, values=[b"v1", b"v2"], p_ok=0.95)
    old = sh.dealt
    lines += hist.gen_writes(r, sh, 4, keys, values=[b"w1"], p_ok=0.95)
    hi = b"/r0"
    for rev in (0, old):
        for K in keys:
            ends = [K + bytes([c]) for c in (0x00, 0x25, 0x2d, 0x2f, 0x30, 0x61, 0xff)] + [r.choice(fam), hi]
            for E in ends:
                if K < E:
                    lines.append("list %s %s %d %d" % (hx(K), hx(E), rev, r.choice([0, 0, 0, 1, 3])))
    return core.Case("backend", lines, {"kind": "enclosure"})


def check(rep, tier, seed):
    n_scripts, n_ops = (16, 700) if tier == "quick" else (256, 16000)
    cases = []
    for i in range(n_scripts):
        r = rng_for(seed, "c10/%d" % i)
        malformed = i % 4 == 3
        cases.append(core.Case("coder", gen_script(r, n_ops, malformed), {"malformed": malformed}))
    # round-trip pairs: every enc is followed by a dec of what the implementation produced — done by
    # a second pass below on the implementation's own outputs
    core.run_cases(cases)
    second = []
    for c in cases:
        rep.count_case(c)
        lines = []
        for ln, out in zip(c.lines, c.impl):
            if ln.startswith("enc ") and len(out.split()) == 2:
                lines.append("dec %s" % out.split()[1])
        if lines:
            second.append(core.Case("coder", lines, {"roundtrip_of": c}))
    core.run_cases(second)
    for c in second:
        rep.count_case(c)
        src = [ln for ln in c.meta["roundtrip_of"].lines if ln.startswith("enc ")]
        for ln, out in zip(src, c.impl):
            t = ln.split()
            if out != "dec ok %s %s" % (t[1], t[2]):
                p = core.write_replay("C10", "roundtrip", text="enc %s %s then dec gives: %s" % (t[1], t[2], out))
                rep.violation(p)
                return
    # the range-bound encoding, through GetPartitions of a one-partition engine
    bcases = []
    for i in range(12 if tier == "quick" else 200):
        r = rng_for(seed, "c10b/%d" % i)
        lines, keys = gen_bound_script(r, 120 if tier == "quick" else 600)
        bcases.append(core.Case("backend", lines, {"keys": keys, "kind": "bounds"}))
    core.run_cases(bcases)
    for c in bcases:
        rep.count_case(c)
        bad = bound_oracle(c)
        if bad:
            rep.violation(core.write_replay("C10", "range-bound", case=c, text="# " + bad))
            return
        if c.diff() is not None:
            core.handle_diff(rep, "C10", "correspondence", c)
            return
    # ... and the enclosure itself, through List
    ecases = [enclosure_case(seed, i) for i in range(4 if tier == "quick" else 120)]
    core.run_cases(ecases)
    for c in ecases:
        rep.count_case(c)
        hit = hist.check_reads(c)
        if hit:
            rep.violation(core.write_replay("C10", "range-enclosure", case=c, text="# " + hit[0]))
            return
        if c.diff() is not None:
            core.handle_diff(rep, "C10", "correspondence", c)
            return
    for c in cases + second:
        d = c.diff()
        bad = oracle(c) if c in cases else None
        if bad:
            rep.violation(core.write_replay("C10", "order", case=c, text="# " + bad))
            return
        if d is not None:
            rep.cov["disagreements_checked"] += 1
            # model and implementation differ; the oracle found nothing on the sampled points
            rep.violation(core.write_replay("C10", "correspondence", case=c), no_input=True)
            return
    rep.assumptions.append("keys over the documented alphabet (every byte > '$'); revisions < 2^64; range bounds: arbitrary bytes")
