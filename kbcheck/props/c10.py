"""C10 — encoding reversible and order-preserving: theorems KB.Props.C10 + `coder` correspondence."""
from .. import core
from ..gen import hx, rand_key, rng_for

REVS = [0, 1, 2, 255, 256, 1000, 2 ** 32, 2 ** 63, 2 ** 64 - 1]


def gen_script(r, n, malformed):
    lines = []
    for _ in range(n):
        k1 = rand_key(r, alphabet_only=not malformed)
        k2 = rand_key(r, alphabet_only=not malformed)
        if r.random() < 0.3:
            k2 = k1 + rand_key(r, True, 2)      # mutually-prefix keys
        if r.random() < 0.1:
            k2 = k1
        r1 = r.choice(REVS) if r.random() < 0.5 else r.randrange(2 ** 64)
        r2 = r.choice(REVS) if r.random() < 0.5 else r.randrange(2 ** 64)
        op = r.random()
        if op < 0.25:
            lines.append("enc %s %d" % (hx(k1), r1))
        elif op < 0.45:
            lines.append("cmpenc %s %d %s %d" % (hx(k1), r1, hx(k2), r2))
        elif op < 0.55:
            lines.append("cmp %s %s" % (hx(k1), hx(k2)))
        elif op < 0.7:
            lines.append("pend %s" % hx(k1))
        elif op < 0.8:
            lines.append("hasprefix %s %s" % (hx(k2), hx(k1)))
        elif op < 0.9:
            b = bytes(r.randint(0, 255) for _ in range(r.choice([0, 7, 8, 8, 9, 9, 10])))
            lines.append("prev %s" % hx(b))
        else:
            # decode: well-formed, truncated, wrong magic, wrong split byte
            import struct
            ik = b"\x57\xfb\x80\x8b" + k1 + b"$" + struct.pack(">Q", r1)
            m = r.random()
            if m < 0.2:
                ik = ik[:r.randint(0, len(ik))]
            elif m < 0.3:
                ik = b"\x57\xfb\x80\x8c" + ik[4:]
            elif m < 0.4 and len(ik) >= 9:
                ik = ik[:-9] + b"%" + ik[-8:]
            lines.append("dec %s" % hx(ik))
    return lines


def oracle(case):
    """C10 on the implementation's transcript alone: round trip and order on the sampled points.
    Returns a description of a failing input or None."""
    import struct
    enc = {}
    for ln, out in zip(case.lines, case.impl):
        t = ln.split()
        o = out.split()
        if t[0] == "enc" and len(o) == 2:
            k = bytes.fromhex(t[1]) if t[1] != "-" else b""
            want = b"\x57\xfb\x80\x8b" + k + b"$" + struct.pack(">Q", int(t[2]))
            # the reference here is the *property* (decodability and order), checked through cmpenc/dec
            enc[(t[1], t[2])] = o[1]
        if t[0] == "cmpenc" and len(o) == 2 and not case.meta.get("malformed"):
            k1 = bytes.fromhex(t[1]) if t[1] != "-" else b""
            k2 = bytes.fromhex(t[3]) if t[3] != "-" else b""
            a, b = (k1, int(t[2])), (k2, int(t[4]))
            exp = "lt" if a < b else ("gt" if a > b else "eq")
            if o[1] != exp:
                return "encoded order of (%s,%s) vs (%s,%s) is %s, (key,revision) order is %s" % (t[1], t[2], t[3], t[4], o[1], exp)
    return None


def check(rep, tier, seed):
    n_scripts, n_ops = (16, 700) if tier == "quick" else (256, 16000)
    cases = []
    for i in range(n_scripts):
        r = rng_for(seed, "c10/%d" % i)
        malformed = i % 4 == 3
        cases.append(core.Case("coder", gen_script(r, n_ops, malformed), {"malformed": malformed}))
    # round-trip pairs: every enc is followed by a dec of what the implementation produced — done by
    # a second pass below on the implementation's own outputs
    core.run_cases(cases)
    second = []
    for c in cases:
        rep.count_case(c)
        lines = []
        for ln, out in zip(c.lines, c.impl):
            if ln.startswith("enc ") and len(out.split()) == 2:
                lines.append("dec %s" % out.split()[1])
        if lines:
            second.append(core.Case("coder", lines, {"roundtrip_of": c}))
    core.run_cases(second)
    for c in second:
        rep.count_case(c)
        src = [ln for ln in c.meta["roundtrip_of"].lines if ln.startswith("enc ")]
        for ln, out in zip(src, c.impl):
            t = ln.split()
            if out != "dec ok %s %s" % (t[1], t[2]):
                p = core.write_replay("C10", "roundtrip", text="enc %s %s then dec gives: %s" % (t[1], t[2], out))
                rep.violation(p)
                return
    for c in cases + second:
        d = c.diff()
        bad = oracle(c) if c in cases else None
        if bad:
            rep.violation(core.write_replay("C10", "order", case=c, text="# " + bad))
            return
        if d is not None:
            rep.cov["disagreements_checked"] += 1
            # model and implementation differ; the oracle found nothing on the sampled points
            rep.violation(core.write_replay("C10", "correspondence", case=c), no_input=True)
            return
    rep.assumptions.append("keys over the documented alphabet (every byte > '$'); revisions < 2^64")
