"""C19 — concurrent requests are free of data races (level: PARTIAL, see `LEVEL_NOTE`).

  proof      KB.Props.C19 over KB.Locks: the generic `lock_discipline_race_free` (abstract trace model, all traces)
             and the instance over KB/Generated/LockTable.lean (every syntactic access to the tracked shared fields,
             regenerated from /repo by harness/cmd/kbextract/locks.go): `lock_table_disciplined` (EVERY tracked
             location), `lock_table_no_offenders`, `lock_table_resolved`, `tracked_locations_race_free`.
  search     `go test -race -tags verif ./racetest/...` (harness/racetest): concurrent create/update/delete/get/
             list/count on shared keys + watchers + concurrent Compact calls + async-retry activity on a backend
             over memkv; leader election with concurrent IsLeader()/GetLeaderInfo(); one etcd watch stream with
             range-stream and watch requests. Every "WARNING: DATA RACE" block is a concrete failing input; its
             two stacks are attributed to locations of the lock table by (file, line).
  verdicts   the workloads must be SILENT. A race on a location listed in known_findings.json with status=known
             (signature race:<location>; none at present) → KNOWN-FINDING; any other race → VIOLATION (replay = the report + the command); a race on a location the table
             calls disciplined additionally means the static side is unsound → VIOLATION as well.
"""
import os
import re
import time

EXTRA_PROP_MODULES = [("KB.Props.OrderC19", "KB.OrderC19")]

from .. import core

LEVEL_NOTE = ("partial: proved = the lock discipline implies race freedom in an abstract trace model (mutex / RW-mutex / "
              "sync/atomic edges only) and the extracted table satisfies the discipline for every tracked location; "
              "trusted = the extractor's lexical lock analysis and its Conforms reading, the memkv batch protocol's "
              "client obligations, confinement / pre-publication claims; not modelled = channel, WaitGroup, Once, "
              "goroutine-start edges; out of scope = fields that are not tracked, badger / tikv, internals of "
              "third-party data structures")

TABLE = os.path.join(core.LEAN, "KB", "Generated", "LockTable.lean")
ROW_RE = re.compile(
    r'\{ file := "(?P<file>[^"]*)", line := (?P<line>\d+), func := "(?P<func>[^"]*)", field := b!"(?P<field>[^"]*)", '
    r'access := \.(?P<access>\w+), mode := \.(?P<mode>\w+), locksHeld := \[(?P<held>[^\]]*)\], locksWrite := \[(?P<heldw>[^\]]*)\], '
    r'readLockOnly := (?P<ro>\w+), threadConfined := (?P<conf>\w+),')


def _names(s):
    return re.findall(r'b!"([^"]*)"', s)


def parse_table():
    text = open(TABLE).read()
    rows = []
    n = 0
    for ln in text.splitlines():
        if ln.strip().startswith("{ file"):
            n += 1
            m = ROW_RE.search(ln)
            if m:
                d = m.groupdict()
                rows.append({"file": d["file"], "line": int(d["line"]), "func": d["func"], "field": d["field"],
                             "write": d["access"] == "write", "atomic": d["mode"] == "atomic",
                             "held": _names(d["held"]), "heldw": _names(d["heldw"]), "confined": d["conf"] == "true"})
    locs = re.search(r"def lockTableLocations : List Name := \[(.*)\]\n", text)
    unres = re.search(r"def lockTableUnresolved : List String := \[(.*)\]\n", text)
    return {"rows": rows, "parsed_all": n == len(rows), "locations": _names(locs.group(1)) if locs else [],
            "unresolved": re.findall(r'"((?:[^"\\]|\\.)*)"', unres.group(1)) if unres else ["<missing>"]}


def disciplined(rows):
    """The same predicate as KB.Locks.locDisciplined (recomputed here only to cross-check the race reports;
    the verdict about the table itself is the Lean theorem)."""
    shared = [r for r in rows if not r["confined"]]
    if all(r["atomic"] for r in shared) or all(not r["write"] for r in shared):
        return True
    cands = {l for r in rows for l in r["held"]}
    return any(all((not r["atomic"]) and L in r["held"] and (not r["write"] or L in r["heldw"]) for r in shared) for L in cands)


FRAME_RE = re.compile(r"^  (\S+)\(\)\n\s+(\S+?):(\d+)", re.M)


def parse_reports(out):
    reports = []
    for blk in out.split("WARNING: DATA RACE")[1:]:
        blk = blk.split("==================")[0]
        parts = re.split(r"\n\s*\n", blk.strip())
        stacks = []
        for part in parts:
            head = part.strip().splitlines()[0] if part.strip() else ""
            if re.match(r"(Previous )?(read|write|atomic read|atomic write)", head, re.I):
                stacks.append((head, FRAME_RE.findall(part)))
        if len(stacks) >= 2:
            reports.append({"text": "WARNING: DATA RACE" + blk, "stacks": stacks[:2]})
    return reports


def attribute(report, rows):
    """Locations of the lock table hit by the two accesses: first frame of each stack inside the repository,
    matched by (file, line)."""
    per_stack = []
    tops = []
    for head, frames in report["stacks"]:
        fields = set()
        top = None
        for fn, path, line in frames:
            if path.startswith(core.REPO + "/"):
                rel = path[len(core.REPO) + 1:]
                if top is None:
                    top = "%s %s:%s" % (fn.split("/")[-1], rel, line)
                hit = {r["field"] for r in rows if r["file"] == rel and r["line"] == int(line)}
                if hit:
                    fields = hit
                    break
        per_stack.append(fields)
        tops.append(top or (frames[0][0] if frames else "?"))
    common = per_stack[0] & per_stack[1]
    fields = common or (per_stack[0] | per_stack[1])
    return sorted(fields), tops


def run_race(tier, seed):
    env = dict(core.GOENV, CGO_ENABLED="1", KB_RACE_MS="2500" if tier == "quick" else "20000", KB_RACE_SEED=str(seed))
    t0 = time.time()
    cmd = ["go", "test", "-race", "-vet=off", "-v", "-tags", "verif", "-count=1", "-timeout", "20m", "./racetest/..."]
    rc, out = core.sh(cmd, cwd=core.HARNESS, env=env, timeout=1800)
    mode = "race"
    if "-race requires cgo" in out or "-race is only supported" in out or ("cgo" in out and "exec: \"gcc\"" in out):
        # no race detector here: plain concurrent stress (finds crashes / deadlocks only)
        mode = "stress-without-race-detector"
        cmd = ["go", "test", "-v", "-tags", "verif", "-count=1", "-timeout", "20m", "./racetest/..."]
        rc, out = core.sh(cmd, cwd=core.HARNESS, env=dict(env, CGO_ENABLED="0"), timeout=1800)
    return mode, " ".join(cmd), rc, out, round(time.time() - t0, 1)


def check(rep, tier, seed):
    tbl = parse_table()
    rows = tbl["rows"]
    fields = sorted({r["field"] for r in rows})
    static_bad = [f for f in fields if not disciplined([r for r in rows if r["field"] == f])]
    cov = rep.cov.setdefault("lock_table", {})
    cov.update({"accesses": len(rows), "locations": len(fields), "tracked_locations": len(tbl["locations"]),
                "unresolved": tbl["unresolved"], "undisciplined_locations": static_bad,
                "accesses_by_location": {f: sum(1 for r in rows if r["field"] == f) for f in fields}})
    rep.cov["level_note"] = LEVEL_NOTE
    if not tbl["parsed_all"] or not rows:
        rep.violation(core.write_replay("C19", "lock-table", text="lock table could not be parsed (%d rows)" % len(rows)), no_input=True)
        return True

    mode, cmd, rc, out, secs = run_race(tier, seed)
    reports = parse_reports(out)
    tests = re.findall(r"^(?:=== RUN|--- (?:PASS|FAIL):)\s+(\S+)", out, re.M)
    logs = re.findall(r"race_test\.go:\d+: (.*)", out)
    rc_cov = rep.cov.setdefault("race_search", {})
    rc_cov.update({"mode": mode, "cmd": "cd harness && CGO_ENABLED=1 " + cmd, "wall_s": secs, "reports": len(reports),
                   "tests": sorted(set(tests)), "workload": logs})
    if mode != "race":
        rep.assumptions.append("the Go race detector is not available in this environment (no cgo): plain concurrent stress only")
    if "[build failed]" in out or "cannot find package" in out or ("FAIL" in out and not tests and not reports):
        rep.violation(core.write_replay("C19", "racetest-build", text="race workload did not build/run:\n" + out[-4000:]), no_input=True)
        return True

    by_loc = {}
    for r in reports:
        locs, tops = attribute(r, rows)
        key = ",".join(locs) if locs else "unattributed:" + "|".join(sorted(tops))
        by_loc.setdefault(key, []).append((r, tops))
    rc_cov["raced_locations"] = {k: len(v) for k, v in by_loc.items()}
    # evidence bookkeeping: every workload run is one evaluated case (its size is what the test logged), and so is
    # every race report
    for t_name in sorted(set(tests)):
        c = core.Case("racetest", ["# " + cmd, "workload %s seed=%d ms=%s" % (t_name, seed, "2500" if tier == "quick" else "20000")] +
                      ["log " + l for l in logs])
        c.impl = ["%s: %s" % (t_name, "race reported" if re.search(r"--- FAIL: %s\b" % re.escape(t_name), out) else "no race report")]
        c.model = []
        rep.count_case(c)
    # evidence bookkeeping: every report is one evaluated case
    for key, lst in by_loc.items():
        c = core.Case("racetest", ["# " + cmd] + ["race %s: %s <-> %s" % (key, t[0], t[1]) for _, t in lst[:5]])
        c.impl = [lst[0][0]["text"][:3000]]
        c.model = []
        rep.count_case(c)
    rep.cov["evaluations"] += max(0, len(reports) - len(by_loc))
    rep.cov["rule"] = ("one evaluation per race-detector workload (test function of harness/racetest, sizes under "
                       "race_search.workload) plus one per race report; distinct = distinct workload / distinct attributed location")

    found = False
    for key, lst in sorted(by_loc.items()):
        report, tops = lst[0]
        locs = key.split(",") if not key.startswith("unattributed:") else []
        unsound = [l for l in locs if l not in static_bad]
        desc = "data race (%d report(s)) on %s: %s <-> %s" % (len(lst), key, tops[0], tops[1])
        text = ("# oracle: %s\n# rerun: cd %s && CGO_ENABLED=1 KB_RACE_MS=2500 %s\n%s" %
                (desc, core.HARNESS, cmd, "\n".join("# " + l for l in report["text"].splitlines())))
        if unsound:
            # the table calls this location disciplined, yet the detector saw a race: static side unsound
            p = core.write_replay("C19", "race-on-disciplined-" + re.sub(r"\W+", "_", key),
                                  text="# the lock table calls %s disciplined, but the race detector reports a race\n%s" % (unsound, text))
            rep.violation(p)
            found = True
            continue
        sigs = ["race:" + l for l in locs] or ["race:" + key]
        known = {f.get("signature") for f in core.load_known().get("findings", [])
                 if f.get("property") == "C19" and f.get("status") == "known"}
        if all(s in known for s in sigs):
            for f in core.load_known()["findings"]:
                if f.get("property") == "C19" and f.get("signature") in sigs and f.get("status") == "known":
                    rep.known_finding("%s [signature %s]" % (f.get("what", desc), f["signature"]))
        else:
            p = core.write_replay("C19", "race-" + re.sub(r"\W+", "_", key)[:80], text=text)
            rep.violation(p)
            found = True
    not_reproduced = [l for l in static_bad if not any(l in k.split(",") for k in by_loc)]
    rc_cov["undisciplined_but_not_raced_in_this_run"] = not_reproduced
    if rc != 0 and not reports and "FAIL" in out:
        rep.violation(core.write_replay("C19", "racetest-failed", text="race workload failed without a race report:\n" + out[-4000:]), no_input=True)
        return True
    rep.assumptions += [
        "callers of storage.BatchWrite use a batch in one goroutine and never after Commit (memkv holds its store mutex from BeginBatchWrite to Commit)",
        "lock and location belong to the same owner object wherever the table pairs them (base expressions recorded in the table's notes)",
        "pointers derived from a location (skip-list elements, queue nodes) are only used inside the critical section that produced them",
        "only mutex / RW-mutex / sync/atomic synchronisation is modelled; channel, WaitGroup, Once and goroutine-start edges are ignored (fewer happens-before edges than Go)",
        "singleflight.Group runs at most one function per key at a time and orders successive runs (golang.org/x/sync)",
    ]
    return found
