"""Dynamic cross-check of the revision allocator (pkg/backend/tso), shared by C15 and C18.

SUPPORTING EVIDENCE ONLY. The proof is lean/KB/Props/C18Cas.lean (atomic-instruction LTS lean/KB/TsoCas.lean, all
thread sets, all schedules) tied to tso.go by the regenerated shape facts (`source_matches_lts`). This runs
harness/racetest's TestTsoCas: N goroutines of Commit(r) / Deal() / GetRevision() on the real tso.NewTSO(), asserting
the theorems' observable consequences (GetRevision samples never decrease, Deal results pairwise distinct and increasing
per goroutine, after its Commit(r) a goroutine reads >= r and deals > r, after all Commits committed >= max r and the
deal cursor >= max r; every dealt revision within the window of a later committed sample), and TestTsoWindow (with nobody
committing exactly MaxInFlight-1 revisions are dealt and every further Deal is refused; a Commit(k) frees exactly k; a
lagging committer), and TestTsoWindowEdge (a FULL window freed a few revisions at a time while a dozen dealers keep asking: no revision
dealt twice, none outside the window). A failed assertion is a concrete failing input (the test's log is the replay)."""
import re
import time

from . import core

CMD = ["go", "test", "-vet=off", "-v", "-tags", "verif", "-count=1", "-timeout", "5m", "-run", "^TestTso(Cas|Window|WindowEdge)$", "./racetest/"]


def run_dynamic(rep, prop, seed):
    """Returns True when a violation was recorded."""
    t0 = time.time()
    rc, out = core.sh(CMD, cwd=core.HARNESS, env=dict(core.GOENV, KB_RACE_SEED=str(seed)), timeout=900)
    logs = re.findall(r"tso_race_test\.go:\d+: (.*)", out)
    failed = re.search(r"^--- FAIL: TestTso(Cas|Window|WindowEdge)\b", out, re.M) is not None
    passed = all(re.search(r"^--- PASS: %s\b" % t, out, re.M) is not None for t in ("TestTsoCas", "TestTsoWindow", "TestTsoWindowEdge"))
    rep.cov["tso_cas_dynamic"] = {"cmd": "cd harness && " + " ".join(CMD), "wall_s": round(time.time() - t0, 1),
                                  "result": "fail" if failed else ("pass" if passed else "did-not-run"), "log": logs[:12]}
    c = core.Case("racetest", ["# " + " ".join(CMD), "workload TestTsoCas+TestTsoWindow seed=%d" % seed] + ["log " + l for l in logs[:12]])
    c.impl = ["TestTsoCas/TestTsoWindow: %s" % ("assertion failed" if failed else "ok" if passed else "did not run")]
    c.model = []
    rep.count_case(c)
    text = "# rerun: cd %s && KB_RACE_SEED=%d %s\n%s" % (core.HARNESS, seed, " ".join(CMD),
                                                        "\n".join("# " + l for l in out.splitlines()[-60:]))
    if failed:
        rep.violation(core.write_replay(prop, "tso-cas-dynamic", text="# oracle: the real tso violated a consequence of "
                                        "KB.C18Cas under concurrent Commit/Deal/GetRevision: %s\n%s" %
                                        ("; ".join([l for l in logs if ": rounds=" not in l and ": W=" not in l][:3]), text)))
        return True
    if not passed:
        rep.violation(core.write_replay(prop, "tso-cas-dynamic-did-not-run", text="# the tso workload did not build/run\n" + text),
                      no_input=True)
        return True
    return False
