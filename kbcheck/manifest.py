"""Regenerates /verif/MANIFEST.json from the per-property claims below (python3 -m kbcheck.manifest)."""
import json
import os

VERIF = os.path.dirname(os.path.dirname(os.path.abspath(__file__)))

CLAIMS = {}
NOT_APPLICABLE = {}


def claim(pid, text, note, technique, design_ref, category="proof"):
    CLAIMS[pid] = dict(text=text, note=note, technique=technique, design_ref=design_ref, category=category)


claim("C10",
      "Lean 4 theorems (KB.Props.C10) over the model of coder/normal.go, rev.go and PrefixEnd: decode∘encode = id for all keys and all "
      "revisions < 2^64; encoded order = (key, revision) order for all keys over the alphabet; index-first, contiguity, exact range and "
      "prefix bounds; total classification of index values. The model's constants are regenerated from the source on every run and the "
      "model is run against Coder/PrefixEnd/ParseRevision/bytes.Compare on generated inputs (incl. malformed).",
      "Trusted: Lean kernel (+propext, Classical.choice, Quot.sound), kbextract's constant evaluation, the differential coder suite "
      "(sampled), byte = Nat < 256 modelling.",
      "Lean 4 proof (induction on byte lists / digit width) + differential correspondence of the executable model",
      "DESIGN.md §5 C10")

ALL = ["C%02d" % i for i in range(1, 21)]


def build():
    checks = []
    for pid in ALL:
        if pid not in CLAIMS:
            continue
        c = CLAIMS[pid]
        checks.append({
            "property_id": pid,
            "quick_cmd": "bin/check %s quick" % pid,
            "thorough_cmd": "bin/check %s thorough" % pid,
            "evidence_file": "/verif/evidence/%s.json" % pid,
            "replay_cmd_template": "bin/replay {path}",
            "engine": "lean4+kbharness",
            "level_claimed": {"category": c["category"], "text": c["text"], "design_ref": c["design_ref"]},
            "level_note": c["note"],
            "technique": c["technique"],
        })
    na = [{"property_id": pid, "reason": NOT_APPLICABLE.get(pid, "not yet claimed in this revision of the framework: model/proof/correspondence under construction (see DESIGN.md §5)")}
          for pid in ALL if pid not in CLAIMS]
    m = {
        "version": 1,
        "setup_cmd": "bin/setup",
        "hooks": {
            "guard": "verif (Go build tag)",
            "enable": "go build -tags verif (the harness module /verif/harness replaces github.com/kubewharf/kubebrain => /repo)",
            "baseline_off_cmd": "cd /repo && GOFLAGS=-mod=mod go test -json -vet=off -count=1 -timeout 25m ./...",
            "source_commits": ["ce0c51a", "c3e3a32"],
            "add_only": True,
        },
        "engines": [
            {"name": "lean4", "path": "/verif/lean", "serves_properties": sorted(CLAIMS), "kind_free_text": "Lean 4 model + theorems (lake project KB), driver kbmodel"},
            {"name": "kbharness", "path": "/verif/harness", "serves_properties": sorted(CLAIMS), "kind_free_text": "Go differential harness over the real packages (-tags verif) and go/ast fact extractor kbextract"},
        ],
        "checks": checks,
        "notes": "One orchestrator (bin/check <id> <tier>) per property: regenerates KB/Generated from /repo, rebuilds Lean + harness, audits the property's theorems (#print axioms), runs the correspondence suites and oracles. See DESIGN.md.",
        "not_applicable": na,
    }
    with open(os.path.join(VERIF, "MANIFEST.json"), "w") as f:
        json.dump(m, f, indent=1)
    return m


if __name__ == "__main__":
    build()
