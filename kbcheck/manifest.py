"""Regenerates /verif/MANIFEST.json from the per-property claims below (python3 -m kbcheck.manifest)."""
import json
import os

VERIF = os.path.dirname(os.path.dirname(os.path.abspath(__file__)))

CLAIMS = {}
NOT_APPLICABLE = {}


def claim(pid, text, note, technique, design_ref, category="proof"):
    CLAIMS[pid] = dict(text=text, note=note, technique=technique, design_ref=design_ref, category=category)


claim("C10",
      "Lean 4 theorems (KB.Props.C10) over the model of coder/normal.go, rev.go and PrefixEnd: decode∘encode = id for all keys and all "
      "revisions < 2^64; encoded order = (key, revision) order for all keys over the alphabet; index-first, contiguity, exact range and "
      "prefix bounds; total classification of index values. The model's constants are regenerated from the source on every run and the "
      "model is run against Coder/PrefixEnd/ParseRevision/bytes.Compare on generated inputs (incl. malformed).",
      "Trusted: Lean kernel (+propext, Classical.choice, Quot.sound), kbextract's constant evaluation, the differential coder suite "
      "(sampled), byte = Nat < 256 modelling.",
      "Lean 4 proof (induction on byte lists / digit width) + differential correspondence of the executable model",
      "DESIGN.md §5 C10")

TB = ("Trusted: Lean 4.33 kernel (+propext, Classical.choice, Quot.sound as printed per theorem in the evidence), the hand-written "
      "model being the code (established by the differential correspondence suites - sampled - and the regenerated constants), "
      "harness canonicalisation. ")

claim("C03",
      "Lean theorems KB.Props.C03 over the worker-loop model (scanner.go:416-507), getInternalVal and List/Count: for EVERY sorted decoded "
      "store, revision and key, a range scan emits exactly the newest version <= R of each key unless it is a deletion, sorted, once; the point "
      "read equals the same spec for every adapter deviation (Quirks); limits give a prefix and more <-> cut short; re-reads are stable. The "
      "full 'any non-empty value' clause is false (value == tombstone): stated, witnessed by `tombstone_value_lost`, replayed every run, known finding. "
      "Correspondence: random histories on memkv/badger/tikv-mock/metrics wrapper, model vs implementation line by line, plus an independent MVCC oracle.",
      TB + "Reads at revisions <= committed and >= floor; sequential histories (concurrency is C04/C01).",
      "Lean 4 proof (normal form of the scan loop by induction over sorted record lists) + differential correspondence", "DESIGN.md §5 C03")
claim("C04",
      "Lean theorems KB.Props.C04 over the interleaving LTS KB.Sys (any number of clients, any schedule, any expected revisions incl. future/"
      "malformed, any placement of storage faults): committed < every unreported dealt revision; slot accounting (every dealt revision above "
      "committed is in a slot xor owned by exactly one in-flight request); no stall; at quiescence committed = dealt; every returned request's "
      "revision is resolved. Correspondence: gated schedules (every storage call a script step) on three engines.",
      TB + "Atomicity granularity of KB.Sys (one Deal / one batch commit / one snapshot read / one slot store per step); Go scheduler fairness for liveness.",
      "Lean 4 proof (inductive invariant over all schedules of an LTS) + scheduled differential correspondence", "DESIGN.md §5 C04")
claim("C11",
      "Lean theorems KB.Props.C11 on the reference engine every other theorem uses: batch all-or-nothing and applied exactly when all conditions "
      "hold on the state each op sees; failures are condition failures (contractual Quirks); the store is a map; forward/backward iteration yields "
      "exactly the interval, ordered, limit = prefix with at least `limit` elements. Each adapter (memkv, badger, tikv mock, each behind the metrics "
      "wrapper) is tied to the reference engine with its recorded Quirks by the differential `engine` suite + a dict-based contract oracle.",
      TB + "Third-party engines (skiplist, badger, tikv client/mock) are modelled, not verified: snapshot isolation under real concurrency is assumed.",
      "Lean 4 proof about the reference engine + differential correspondence of every adapter against it", "DESIGN.md §5 C11")
claim("C12",
      "Lean theorems KB.Props.C12: for any two engines that differ only in what the storage interface leaves open (conflict value/index, limit "
      "handling, bare vs wrapped CAS errors), Get/Create/Update/Delete/List of the backend model give the same response and successor state on every "
      "well-formed store; without the contract it is false (witness: pre-fix tikv). Correspondence: the same script on memkv, badger, tikv, metrics(badger) "
      "must give pairwise identical transcripts (this IS the property) and equal the model.",
      TB + "Sequential histories; TTL-dependent behaviour excluded (C17).",
      "Lean 4 proof (per-request independence of Quirks) + pairwise differential runs across engines", "DESIGN.md §5 C12")
claim("C13",
      "Lean theorems KB.Props.C13: the worker loop distributes over a split at a key boundary; adjustPartitionsBorders yields contiguous partitions "
      "whose interior borders are index positions; for ANY sorted list of well-formed borders the concatenation of per-partition outputs equals the "
      "unpartitioned scan; stream batches carry the read revision with one terminator. Correspondence: injected (reversed) partitions on all engines and "
      "real tikv-mock region splits; List/Count/ListByStream per advertised partition and whole, with an MVCC oracle.",
      TB + "Borders are stored keys or well-formed internal keys (the property's own quantifier).",
      "Lean 4 proof (list induction; border adjustment monotone in (key,rev) order) + differential correspondence", "DESIGN.md §5 C13")

ALL = ["C%02d" % i for i in range(1, 21)]


def build():
    checks = []
    for pid in ALL:
        if pid not in CLAIMS:
            continue
        c = CLAIMS[pid]
        checks.append({
            "property_id": pid,
            "quick_cmd": "bin/check %s quick" % pid,
            "thorough_cmd": "bin/check %s thorough" % pid,
            "evidence_file": "/verif/evidence/%s.json" % pid,
            "replay_cmd_template": "bin/replay {path}",
            "engine": "lean4+kbharness",
            "level_claimed": {"category": c["category"], "text": c["text"], "design_ref": c["design_ref"]},
            "level_note": c["note"],
            "technique": c["technique"],
        })
    na = [{"property_id": pid, "reason": NOT_APPLICABLE.get(pid, "not yet claimed in this revision of the framework: model/proof/correspondence under construction (see DESIGN.md §5)")}
          for pid in ALL if pid not in CLAIMS]
    m = {
        "version": 1,
        "setup_cmd": "bin/setup",
        "hooks": {
            "guard": "verif (Go build tag)",
            "enable": "go build -tags verif (the harness module /verif/harness replaces github.com/kubewharf/kubebrain => /repo)",
            "baseline_off_cmd": "cd /repo && GOFLAGS=-mod=mod go test -json -vet=off -count=1 -timeout 25m ./...",
            "source_commits": ["ce0c51a", "c3e3a32"],
            "add_only": True,
        },
        "engines": [
            {"name": "lean4", "path": "/verif/lean", "serves_properties": sorted(CLAIMS), "kind_free_text": "Lean 4 model + theorems (lake project KB), driver kbmodel"},
            {"name": "kbharness", "path": "/verif/harness", "serves_properties": sorted(CLAIMS), "kind_free_text": "Go differential harness over the real packages (-tags verif) and go/ast fact extractor kbextract"},
        ],
        "checks": checks,
        "notes": "One orchestrator (bin/check <id> <tier>) per property: regenerates KB/Generated from /repo, rebuilds Lean + harness, audits the property's theorems (#print axioms), runs the correspondence suites and oracles. See DESIGN.md.",
        "not_applicable": na,
    }
    with open(os.path.join(VERIF, "MANIFEST.json"), "w") as f:
        json.dump(m, f, indent=1)
    return m


if __name__ == "__main__":
    build()
