"""Regenerates /verif/MANIFEST.json from the per-property claims below (python3 -m kbcheck.manifest)."""
import json
import os

VERIF = os.path.dirname(os.path.dirname(os.path.abspath(__file__)))

CLAIMS = {}
NOT_APPLICABLE = {}


def claim(pid, text, note, technique, design_ref, category="proof"):
    CLAIMS[pid] = dict(text=text, note=note, technique=technique, design_ref=design_ref, category=category)


claim("C10",
      "Lean 4 theorems (KB.Props.C10) over the model of coder/normal.go, rev.go and PrefixEnd: decode∘encode = id for all keys and all "
      "revisions < 2^64; encoded order = (key, revision) order for all keys over the alphabet; index-first, contiguity, exact range and "
      "prefix bounds; total classification of index values. The model's constants are regenerated from the source on every run and the "
      "model is run against Coder/PrefixEnd/ParseRevision/bytes.Compare on generated inputs (incl. malformed); the range-bound encoding is observed through GetPartitions, and the enclosure itself through List over [K, K+one byte) / [K, other key) for families of keys that extend one another.",
      "Trusted: Lean kernel (+propext, Classical.choice, Quot.sound), kbextract's constant evaluation, the differential coder suite "
      "(sampled), byte = Nat < 256 modelling.",
      "Lean 4 proof (induction on byte lists / digit width) + differential correspondence of the executable model",
      "DESIGN.md §5 C10")

TB = ("Trusted: Lean 4.33 kernel (+propext, Classical.choice, Quot.sound as printed per theorem in the evidence), the hand-written "
      "model being the code (established by the differential correspondence suites - sampled - and the regenerated constants), "
      "harness canonicalisation. ")

claim("C03",
      "Lean theorems KB.Props.C03 over the worker-loop model (scanner.go:416-507), getInternalVal and List/Count: for EVERY sorted decoded "
      "store, revision and key, a range scan emits exactly the newest version <= R of each key unless it is a deletion, sorted, once; the point "
      "read equals the same spec for every adapter deviation (Quirks); limits give a prefix and more <-> cut short; re-reads are stable. The "
      "full 'any non-empty value' clause is false (value == tombstone): stated, witnessed by `tombstone_value_lost`, replayed every run, known finding. "
      "KB.Props.C03Bounds: the same for range bounds of the form key+\\x00 (continue key of a paginated list, end of a single-key range): list_is_snapshot_range, "
      "single_key_range, next_page (pages concatenate to the unlimited read). "
      "Correspondence: random histories on memkv/badger/tikv-mock/metrics wrapper, model vs implementation line by line, plus an independent MVCC oracle; deterministic bound / paging / empty-value scripts.",
      TB + "Reads at revisions <= committed and >= floor; sequential histories (concurrency is C04/C01); bounds over the alphabet or key+\\x00.",
      "Lean 4 proof (normal form of the scan loop by induction over sorted record lists) + differential correspondence", "DESIGN.md §5 C03")
claim("C04",
      "Lean theorems KB.Props.C04 over the interleaving LTS KB.Sys (any number of clients, any schedule, any expected revisions incl. future/"
      "malformed, any placement of storage faults): committed < every unreported dealt revision; slot accounting (every dealt revision above "
      "committed is in a slot xor owned by exactly one in-flight request xor held by the asynchronous repair between its read and its commit); no stall; "
      "at quiescence (no client AND no repair mid-way; the weaker hypothesis is refuted by a decided witness) committed = dealt; every returned request's "
      "revision is resolved; the slot ring of the real code behaves as the model's slot map (regenerated order facts + ring_window_injective). "
      "KB.Props.C04Window (624b477, `Deal` refuses while dealt+1-committed >= the ring): in every reachable state every dealt unresolved revision is "
      "inside the ring's window and has a slot of its own, with NO bound on requests in flight (`window_holds`, `notify_never_overflows`, "
      "`slot_always_free`); a full window is a refusal without a revision, not a panic; the old `Deal` is refuted on a 3-slot ring (decided). "
      "Correspondence: gated schedules (every storage call a script step, incl. the repair loop's own calls) on three engines; sequential histories in which some requests run with an already cancelled context (`gone=1`).",
      TB + "Atomicity granularity of KB.Sys (one Deal / one batch commit / one snapshot read / one slot store per step); Go scheduler fairness for liveness. "
      "The full-window path is not exercised on the real code (100000 requests in flight; /repo has no verif-only way to shrink the ring): theorem + "
      "regenerated constant + the instruction-level model of Deal (C18Cas).",
      "Lean 4 proof (inductive invariant over all schedules of an LTS) + scheduled differential correspondence", "DESIGN.md §5 C04")
claim("C11",
      "Lean theorems KB.Props.C11 on the reference engine every other theorem uses: batch all-or-nothing and applied exactly when all conditions "
      "hold on the state each op sees; failures are condition failures (contractual Quirks); the store is a map; forward/backward iteration yields "
      "exactly the interval, ordered, limit = prefix with at least `limit` elements. Each adapter (memkv, badger, tikv mock, each behind the metrics "
      "wrapper) is tied to the reference engine with its recorded Quirks by the differential `engine` suite + a dict-based contract oracle. "
      "KB.Props.C11Conflict (model KB.EngineTxn: one TiKV transaction attempt with start timestamp, write records and rollback marks, and the bounded re-run "
      "loop of Commit): a rollback mark is never reported as a failed condition, a failed condition is reported only if a condition was false on data the store "
      "really went through, a conflict that persists is an error and applies nothing; the pre-fix mappings are refuted. Correspondence: abandoned transactions "
      "(cancelled prewrite on the mock cluster) racing batches begun earlier.",
      TB + "Third-party engines (skiplist, badger, tikv client/mock) are modelled, not verified: snapshot isolation under real concurrency is assumed.",
      "Lean 4 proof about the reference engine + differential correspondence of every adapter against it", "DESIGN.md §5 C11")
claim("C12",
      "Lean theorems KB.Props.C12: for any two engines that differ only in what the storage interface leaves open (conflict value/index, limit "
      "handling, bare vs wrapped CAS errors), Get/Create/Update/Delete/List of the backend model give the same response and successor state on every "
      "well-formed store; without the contract it is false (witness: pre-fix tikv). Correspondence: the same script on memkv, badger, tikv, metrics(badger) "
      "must give pairwise identical transcripts (this IS the property) and equal the model.",
      TB + "Sequential histories; TTL-dependent behaviour excluded (C17).",
      "Lean 4 proof (per-request independence of Quirks) + pairwise differential runs across engines", "DESIGN.md §5 C12")
claim("C13",
      "Lean theorems KB.Props.C13: the worker loop distributes over a split at a key boundary; adjustPartitionsBorders yields contiguous partitions "
      "whose interior borders are index positions; for ANY sorted list of well-formed borders the concatenation of per-partition outputs equals the "
      "unpartitioned scan; stream batches carry the read revision with one terminator. Correspondence: injected (reversed) partitions on all engines and "
      "real tikv-mock region splits; List/Count/ListByStream per advertised partition (predicted borders AND the implementation's own advertisement, `streamadv`) and whole, with an MVCC oracle.",
      TB + "Borders are stored keys or well-formed internal keys (the property's own quantifier).",
      "Lean 4 proof (list induction; border adjustment monotone in (key,rev) order) + differential correspondence", "DESIGN.md §5 C13")

claim("C01",
      "Lean theorems KB.Props.C01 over the interleaving LTS KB.Sys (all schedules, any number of clients, arbitrary expected revisions, storage "
      "faults, retry rewrites, every Quirks, every well-formed initial store): the applied writes of each key form one chain in which every update/"
      "guarded delete named exactly its predecessor's revision and every create found the key absent or deleted (`chain`); two writers conditioned on "
      "the same revision never both succeed; a step that applies nothing leaves the store unchanged; the index record always equals the last applied "
      "write; a CAS conflict means the index really differed at that step. KB.Props.C01Repair (creator since eb6d1d1, its bounded re-evaluation "
      "loop a step per storage call; since 42e5238 a deletion record at/above the create's revision is an error): a create is answered 'condition failed' "
      "only if at some moment of the log between its begin and its answer the key was LIVE, or after 4 failed compare-and-swaps with >= 4 writes to the key "
      "meanwhile (`create_cf_justified_under_repair`, `create_cf_names_the_interferer`); the auditors' schedules end `ok` (repair dealt before the create) / "
      "`error` (after) (decided), the pre-fix creators are refuted on them (decided). Correspondence: gated schedules on three engines incl. ALL interleavings of "
      "two clients for 21 request-shape pairs; chain oracle on the implementation's responses; a parked create stepped against the stepped repair "
      "of an uncertain delete (pseudo client R), repair dealt before (must be ok) / after the create (must be an error, never cf), random placements.",
      TB + "Each engine serialises overlapping transactions on one index key (memkv mutex, badger SSI, tikv optimistic conflicts): the gated harness applies "
      "batches atomically at their release point. `cond_failed_justified` is proved for creates over the whole request (C01Repair, KB.Sys has no compaction "
      "action: that race is C07Race's) and in its local form for guarded updates / deletes (the failing commit step is the moment).",
      "Lean 4 proof (inductive store/log invariant over all schedules) + scheduled differential correspondence", "DESIGN.md §5 C01")
claim("C02",
      "Lean theorems KB.Props.C02 / C02Store over KB.Sys: dealt revisions are unique; a request that returned before another began has the smaller "
      "revision (ghost stamps of the monotone counter); per key the applied revisions strictly increase; header >= data for write failure responses, "
      "Get and List (after fix 2e45001). Correspondence: gated schedules + sequential histories with reads above the committed revision. KB.Props.C02Lag: the per-key history stays strictly increasing, and above every revision the key already has in the store, from ANY well-formed store with an arbitrarily lagging allocator (the local drift / delete / creator guards, each shown necessary by a decided witness); checked against the real code by lagging-allocator scripts (lowrev). KB.Props.C18Cas (audited here too): a revision is dealt once at the allocator's own granularity (one atomic instruction per step, refusals of a full window included), tied to tso.go by regenerated shape facts; dynamic cross-check TestTsoCas / TestTsoWindow / TestTsoWindowEdge on the real allocator.",
      TB + "Real time is observed at script granularity in the correspondence runs.",
      "Lean 4 proof (inductive invariants over all schedules) + scheduled differential correspondence", "DESIGN.md §5 C02")
claim("C06",
      "Lean theorems KB.Props.C06: the pure specification lemma (events (R,R'] applied to the snapshot at R give the snapshot at R', also per key "
      "range) for every revision-sorted history; and for every sequence of requests on the backend model the store read at R equals the snapshot "
      "of the acknowledged writes and the events handed to watchers are exactly those writes in order. Correspondence: List at R, Watch from R+1, "
      "writes/failed writes/compactions, drain, List again - reconstruction oracle on the implementation's outputs, three engines.",
      TB + "Sequential writers around the reader (interleavings are C04/C05's theorems).",
      "Lean 4 proof (history refinement of the sequential model) + differential correspondence", "DESIGN.md §5 C06")
claim("C07",
      "Lean theorems KB.Props.C07 over the compaction pass of the worker loop and the execution of its delete calls under an ARBITRARY failure mask "
      "(any individual failure of any class, condition errors on plain deletes included; any crash point): reads at every revision >= R of every key are unchanged; only records <= R that are superseded / "
      "tombstones / deleted indexes are removed; live keys keep index and newest version. KB.Props.C07Race / C07Par: the same with writers interleaved at "
      "storage-call granularity, one or several (staggered) workers; C07Ranges: the configured ranges for EVERY prefix / skipped-prefix list; C07Expire: the "
      "same pass WITH the ttl pass enabled - every key that is not an Event, or whose revision record is younger than the timeout revision, or whose expired "
      "revision record survived the pass, reads unchanged at every revision >= R; C07Atomic: an expired Event is removed all-or-nothing under every mask and "
      "crash point (one write batch), and after a pass interrupted ANYWHERE every key that reads present accepts a guarded update naming the revision read and "
      "every key that reads absent accepts a create. Correspondence: histories x masks x crash points on three engines, "
      "reads before/after, writes after, skipped prefixes untouched; expiry histories on the engine without native ttl with the batch as a maskable call.",
      TB + "Non-empty raw keys (witness for the empty key proved); revisions below 2^64-1.",
      "Lean 4 proof (loop invariant: a tombstone goes only after all older versions went) + fault-mask differential correspondence", "DESIGN.md §5 C07")
claim("C08",
      "Lean theorems KB.Props.C08: for every store, request revision, failure mask and engine, doCompact never lowers the floor (exactly max(old, clamped "
      "revision)), the floor is >= every accepted revision, writes never touch the record, and List/Count/stream below the floor are refused. "
      "KB.Props.C08Fault (model KB.CompactFault): the same when the scanner's read of the compaction record fails with a transient error in any border pair - the floor afterwards is max(old, accepted revision), an older request never lowers it (after fix 539af5f; the code before it is refuted by the decided witness `recfault_old_lowers_floor`). "
      "Correspondence: compaction sequences (increasing, repeated, older, 0, above current) interleaved with writes and reads on three engines, with skipped directories up to the whole directory of the prefix; floor record read back; compactions whose first or second read of the record fails once (`getfault [skip=1]`), older requests included.",
      TB + "A single compactor (the leader's periodic job).",
      "Lean 4 proof (direct, over the compaction model) + differential correspondence", "DESIGN.md §5 C08")
claim("C14",
      "Lean theorems KB.Props.C14 over the lock model (Get/Create/Update of election.go on the shared reference engine): for all schedules of any number "
      "of candidates: update succeeds only if the stored record equals the candidate's last observed bytes; once present the record is never absent and at most "
      "one create succeeds; two candidates with the same observation never both acquire (fresh records); every change of the record is such a step. "
      "Correspondence: exhaustive enumeration of all step sequences (2 candidates length 6, 3 candidates length 5 on memkv; shorter on badger/tikv; a regime in which every update is a RELEASE record) + random + goroutine races; in the random scripts the read-only endpoints of the real leader.NewLeaderElection object that shares each candidate's lock (`info`) are asked between any two steps and are no step of the lock.",
      TB + "client-go's elector itself is not modelled (only its resourcelock.Interface calls); records are compared as bytes (ABA needs byte-identical records).",
      "Lean 4 proof (all schedules of the lock LTS) + exhaustive differential enumeration", "docs/DESIGN-C14.md")
claim("C17",
      "Lean theorems KB.Props.C17: whatever the scanner's expiry removes lies under <prefix>/events/ (the test is DEFINED through facts regenerated from "
      "txn.go / scanner.go / util.go, so a substring match breaks the proof); the TTL is passed on create exactly for those keys; the timeout revision is a "
      "mark at least TTL old; a record expires only at or below it; an expired key loses index and all versions in one pass and produces no read result. "
      "KB.Props.C17Mem (model KB.MemTTL of the in-memory engine's per-write timers, any op sequence): a value younger than its ttl is never removed, a value written without "
      "ttl never expires, an expired value is removed by its own timer and only by it, index and version of one batch share a deadline; the pre-fix unconditional timer is refuted. "
      "Correspondence: tikv mock with TTL 1 s, event keys and lookalikes, young/old marks, re-creation, silent expiry; engine suite on memkv with a ttl per put and real sleeps; "
      "an Event renewed within its TTL at the backend (wall-clock marks, only conclusive runs judged).",
      TB + "Model time advances only by the script's sleeps; Badger's ttl clock is assumed; memkv timers are assumed to fire within 250 ms after (never before) their deadline.",
      "Lean 4 proof + regenerated source facts + differential correspondence with a model clock", "DESIGN.md §5 C17")

claim("C09",
      "Lean theorems KB.Props.C09 over KB.Sys with the fault oracle on every commit (incl. the repair write) and the retry loop: an acknowledged success "
      "was applied; a definite conflict applied nothing; an unknown outcome is reported as the uncertain error; the retry's own revision is resolved; "
      "compaction is capped below the oldest queued revision; an unrepaired write stays queued; CONVERGENCE: in every quiescent state (nothing in flight, "
      "queue drained) the last applied write of every key is the last event handed to the watchers - for all schedules and all fault placements "
      "(after fixes 35be7da, f99b060). The repair is modelled NON-atomically (read+deal, then commit+report+pop): client writes may land in between - the repair "
      "then loses its compare-and-swap, its dealt revision is reported invalid, the head is popped and the client's write stays (repair_loses_to_client_write). "
      "Correspondence: every single fault placement x {applied, not} x repair outcomes on create/update/delete, 63 stepped interleavings of the repair with client "
      "writes / compactions / a second queued write, the repair's own read failing once (failed_get: the head stays), + random sequences, three engines. OrderC09 also ties, by a regenerated fact, that the repair waits RetryInterval for EVERY entry it examines (a commit landing shortly after its 'unknown' answer is outside the models' fault oracle).",
      TB + "Keys over the alphabet (the counterexample for keys containing the split byte is proved); non-empty, non-tombstone values; granularity: the repair's read+deal and its commit+report+pop are single steps.",
      "Lean 4 proof (coverage invariant over all schedules with faults) + fault-placement differential correspondence", "DESIGN.md §5 C09")
claim("C15",
      "Lean theorems KB.Props.C15: IF the engine timestamp a new leader starts from dominates every stored revision THEN its state is a well-formed initial "
      "state of KB.Sys (so C01/C02/C04 apply), every revision it hands out exceeds every stored one and reads at its revision see everything. The clock "
      "hypothesis is assumed and CHECKED on every run for memkv/tikv; for Badger it is false (proved counter model + model witness) and the check reproduces it: known finding. The real Campaign() is run over a held, a missing and a RELEASED lock record, with the started-leading callback ahead of the renew loop's first poll, and with the engine-timestamp read failing (also below the storage-metrics wrapper).",
      TB + "Engine clocks (wall clock, PD TSO) are outside the model; restarts are judged by an oracle on the implementation only (revisions are wall-clock values).",
      "Lean 4 proof (conditional on the clock hypothesis, which each run checks) + restart scenarios on every engine", "DESIGN.md §5 C15")
claim("C18",
      "Lean theorems KB.Props.C18: `role_table` by decide over the handler-guard table REGENERATED from both servers' handlers (every write/watch handler on a "
      "follower forwards or refuses without touching the backend; every read handler syncs first and returns the sync error); follower read-sync LTS: the full "
      "freshness statement is refuted by `joined_fetch_is_stale` (one known finding, replayed on the real syncer every run); after fix db7d4ff the read revision never "
      "decreases and a read that did its own fetch is fresh (`late_set_does_not_lower`, `stale_read_joined_late`: the late join is the only remaining source of staleness); "
      "a forwarded transaction is executed at most once and a lost answer is passed on as Unavailable (`forward_at_most_once`). KB.Props.C18Cas: the revision allocator "
      "(tso.go) as a transition system at ATOMIC-INSTRUCTION granularity, any number of goroutines, every schedule: neither register ever decreases, Deal results are unique and "
      "increase in real time, after Commit(r) both registers stay >= r and every later Deal is above r, a failed compare-and-swap means another goroutine raised the register "
      "(bounded retries); the pre-fix plain store / single CAS are refuted; the loop SHAPE of tso.go is regenerated from the source and compared by `source_matches_lts`. KB.Props.C18Gen: the repair proposed for the known finding (generation number per fetch; proposed-fixes/, not applied) is sufficient as written, at atomic-instruction granularity incl. the window between the registration of a call and its numbering (`follower_read_fresh_gen`), and costs a reader at most one extra round (`rejected_at_most_once`) - a theorem about the proposal, the finding stays known. Correspondence: every handler x role x proxy x "
      "leader behaviour (exhaustive), follower schedules on the real syncer incl. revisions above 2^53, forwarded transactions through the real etcd proxy with lost answers.",
      TB + "kbextract's syntactic guard analysis (cross-checked row by row by the exhaustive run); role does not change within a request.",
      "Lean 4 proof + decide over a regenerated table + exhaustive differential table run", "docs/DESIGN-C18.md")

claim("C05",
      "Lean theorems KB.Props.C05: ring_find_spec (every capacity, every strictly increasing add sequence, the LITERAL index arithmetic and two-segment copy "
      "of ring.go incl. wrap-around and the literal binary search); watch_prefix_of_spec over all schedules of the pipeline LTS (sequencer, ring, watchChan, hub "
      "fan-out, subscribe / cache read / decide, forwarder, consumer; arbitrary capacities): delivered is always a prefix of the matching produced events — strictly "
      "increasing, no duplicate, no gap, complete when drained; no_continue_after_gap; refused_iff; the pre-fix asynchronous delete is refuted by a decided witness. "
      "Correspondence: registration raced at each of the three yield points x start revisions x cache sizes, slow consumer overflowing 10000+100 buffers, ring suite.",
      TB + "Atomicity of each LTS step (channel send/receive, one mutex section); event source = strictly increasing valid events (C04).",
      "Lean 4 proof (conservation invariant over all schedules of the watch pipeline) + gated differential correspondence", "docs/DESIGN-C05.md")
claim("C19",
      "PARTIAL. Lean theorems KB.Props.C19: generic `lock_discipline_race_free` over an abstract trace model (threads, mutex/RW-mutex/atomic edges, happens-before; "
      "mutual exclusion derived from an operational lock machine): a location whose conflicting accesses hold a common lock (one in write mode), or is atomic-only, or "
      "thread-confined, has no data race in any well-formed trace; instance `lock_table_disciplined` by decide over the lock table REGENERATED from the source "
      "(120 accesses / 25 shared locations of memkv, ring, hub, retry queue, tso, slots, scanner, leader, election, syncer, etcd watcher); OrderC19: structural facts "
      "for locations the table does not track, and `no_reentrant_lock_acquisition` over all methods of /repo/pkg. Failing-input search: "
      "go test -race workloads (concurrent requests, watches, two compactions, retries).",
      "Trusted: kbextract's lexical lock analysis (locks held at each syntactic access, one level of caller propagation, the memkv batch protocol), the abstract memory "
      "model (no channel / WaitGroup / Once edges), confinement claims; only the tracked fields; third-party engines out of scope. " + TB,
      "Lean 4 proof of the lock-discipline theorem + decide over a regenerated access table + race-detector workloads", "docs/DESIGN-C19-C20.md")
claim("C20",
      "Lean theorems KB.Props.C20 / C20Metrics / C20Requests: metric emission never panics — by decide over the table of ALL emission call sites regenerated from the "
      "source (same formatted name => same kind and label-name set; valid names; client-controlled label values are sanitised) lifted by an induction over arbitrary "
      "emission sequences of the modelled registry; hostile revisions (negative via the uint64 cast, far future) take the rejection path and their revision is "
      "resolved; after ANY schedule of ANY requests over alphabet keys a fresh create+read works; stored keys never panic Decode. KB.Props.C20Native (model KB.Native of the native handlers as a function of the backend's answer): every request shape "
      "incl. empty fields and a nil Kv is answered, refusals (validation, expired deadline, follower) leave the state untouched and happen in that order, an accepted request is exactly "
      "the backend's answer, the shim adds no panic. Correspondence: suite `native` drives the REAL brain.Server handlers (leader / follower with a real revision syncer, expired "
      "contexts, invalid shapes) line by line against the model; every site replayed "
      "on the real Prometheus client, real Watch with non-UTF-8 keys, hostile keys/revisions/limits through the backend API each followed by a probe.",
      TB + "One hypothesis kept visible: the leader address label (from the election record, not client-writable) is valid UTF-8. Known finding: a key containing the split byte "
      "shadows another key's point reads.",
      "Lean 4 proof + decide over a regenerated table + hostile-request differential runs with probes", "docs/DESIGN-C19-C20.md")

claim("C16",
      "Lean theorems KB.Props.C16 over the model of the etcd shim (kv.go recognisers, backendshim.go response shaping, watch event shaping) and a reference "
      "etcd-semantics model (KB.EtcdRef): `shim_sound` - in every consistent state, for EVERY structurally valid transaction (all shapes, flags, nested/empty ops, "
      "correct/stale/zero/future/negative expectations) the shim answers an error or exactly what etcd answers (success flag, failure-branch kv, revisions) and "
      "`executed_only_if_canonical` / `refused_unchanged`: anything but the Kubernetes shapes is refused with nothing executed (the one canned answer, to kube-apiserver's "
      "compaction probe, is given to EXACTLY that probe: `compact_probe_shape_exact`, `near_probe_rejected`, `answered_only_if_canonical_or_probe`); range reads: kvs, order, more-flag and "
      "header match the reference (`range_matches_ref`), the COUNT does not for limited ranges and unchecked bounds (two known findings, witnessed by theorems and "
      "replayed every run); watch events carry type, kv and prev_kv as etcd's. Correspondence: the real RPCServer (Txn/Range/Watch stream) over the real backend vs "
      "the model, plus an independent etcd-reference oracle in Python; witness scripts of the repaired recogniser defects run first.",
      TB + "gRPC transport and protobuf marshalling are not modelled (requests are built as etcdserverpb structs in-process); etcd's own request validation (empty key) is a stated hypothesis (ReqOK).",
      "Lean 4 proof (refinement to a reference etcd model) + differential correspondence on the real RPC server", "docs/DESIGN-C16.md")

ALL = ["C%02d" % i for i in range(1, 21)]


def build():
    checks = []
    for pid in ALL:
        if pid not in CLAIMS:
            continue
        c = CLAIMS[pid]
        checks.append({
            "property_id": pid,
            "quick_cmd": "bin/check %s quick" % pid,
            "thorough_cmd": "bin/check %s thorough" % pid,
            "evidence_file": "/verif/evidence/%s.json" % pid,
            "replay_cmd_template": "bin/replay {path}",
            "engine": "lean4+kbharness",
            "level_claimed": {"category": c["category"], "text": c["text"], "design_ref": c["design_ref"]},
            "level_note": c["note"],
            "technique": c["technique"],
        })
    na = [{"property_id": pid, "reason": NOT_APPLICABLE.get(pid, "not yet claimed in this revision of the framework: model/proof/correspondence under construction (see DESIGN.md §5)")}
          for pid in ALL if pid not in CLAIMS]
    m = {
        "version": 1,
        "setup_cmd": "bin/setup",
        "hooks": {
            "guard": "verif (Go build tag)",
            "enable": "go build -tags verif (the harness module /verif/harness replaces github.com/kubewharf/kubebrain => /repo)",
            "baseline_off_cmd": "cd /repo && GOFLAGS=-mod=mod go test -json -vet=off -count=1 -timeout 25m ./...",
            "source_commits": ["ce0c51a", "c3e3a32"],
            "add_only": True,
        },
        "engines": [
            {"name": "lean4", "path": "/verif/lean", "serves_properties": sorted(CLAIMS), "kind_free_text": "Lean 4 model + theorems (lake project KB), driver kbmodel"},
            {"name": "kbharness", "path": "/verif/harness", "serves_properties": sorted(CLAIMS), "kind_free_text": "Go differential harness over the real packages (-tags verif) and go/ast fact extractor kbextract"},
        ],
        "checks": checks,
        "notes": "One orchestrator (bin/check <id> <tier>) per property: regenerates KB/Generated from /repo, rebuilds Lean + harness, audits the property's theorems (#print axioms), runs the correspondence suites and oracles. See DESIGN.md.",
        "not_applicable": na,
    }
    with open(os.path.join(VERIF, "MANIFEST.json"), "w") as f:
        json.dump(m, f, indent=1)
    return m


if __name__ == "__main__":
    build()
