"""Differential suite `native`: the REAL handlers of the native gRPC API (pkg/server/brain/read.go, write.go) driven
in-process (harness/cmd/kbharness/suite_native.go) against the Lean model KB.Native.nativeStep (kbmodel native).

`gen_case` writes histories that mix valid native writes and reads, ~25% invalid request shapes (empty key / value /
end, nil Kv, compact revision 0, also combined with an expired deadline or a follower), hostile revisions, a follower
phase (leader unreachable, then reachable with a revision of its own), expired-deadline writes and direct backend ops in
between. `oracle` judges the IMPLEMENTATION's transcript only:
  * the process survives and no handler panics;
  * a request the handler layer refused (`err invalid|deadline|notleader|syncfail`) leaves the store and later reads
    unchanged (every `dump` / repeated `list` line is compared with the previous one when only refused requests lie
    between them);
  * a follower never applies a write (no native write is answered other than with a refusal while the node is a
    follower — and, by the rule above, none changes the store);
  * header >= data on every native response (point read, range, failed conditional write, delete, stream batches).
"""
from . import core, hist
from .gen import KEY_POOL, PREFIX, VALUES, hx, rng_for

ENGINES = ["memkv", "badger", "tikv"]
REFUSALS = ("invalid", "deadline", "notleader", "syncfail")
N_WRITES = ("ncreate", "nupdate", "nupdate-nil", "ndelete", "ncompact")
N_READS = ("nget", "nrange", "ncount", "nparts", "nstream")
MUTATING = N_WRITES + ("create", "update", "delete", "compact", "raw", "bulk", "retry", "setrev", "lowrev")
MAGIC = bytes([0x57, 0xfb, 0x80, 0x8b])
HOSTILE_REVS = [2 ** 31, 2 ** 62, 2 ** 63, 2 ** 63 + 5, 2 ** 64 - 1, 2 ** 64 - 7]
ALL = "list %s %s 0 0" % (hx(PREFIX + b"/"), hx(PREFIX + b"0"))


def ikey(k):
    """internal border of a raw key (what ListPartition advertises and RangeStream expects): encode(k, 0)"""
    return MAGIC + k + b"$" + bytes(8)


def invalid_shape(r, keys):
    k, v = hx(r.choice(keys)), hx(r.choice([b"v", b"w2"]))
    a, b = hx(PREFIX + b"/"), hx(PREFIX + b"0")
    rev = r.choice([0, 0, hist.INIT + 1] + HOSTILE_REVS[:2])
    return r.choice([
        "ncreate - %s" % v, "ncreate %s -" % k, "ncreate - -",
        "nupdate - %s %d" % (v, rev), "nupdate %s - %d" % (k, rev), "nupdate-nil",
        "ndelete - %d" % rev, "nget - %d" % rev, "ncompact 0",
        "nrange - %s %d 0" % (b, rev), "nrange %s - %d 3" % (a, rev), "nrange - - 0 0",
        "ncount - %s" % b, "ncount %s -" % a, "nparts %s -" % a, "nparts - %s" % b,
        "nstream %s - %d" % (hx(ikey(PREFIX + b"/")), rev), "nstream - %s 0" % hx(ikey(PREFIX + b"0")),
    ])


def native_write(r, sh, keys, values):
    """a well-formed native write (guards succeed mostly; some stale / far-future / hostile expectations)"""
    key = r.choice(keys)
    cur = sh.keys.get(key)
    live = cur is not None and cur[1]
    x = r.random()
    kind = ("create" if x < 0.1 else ("update" if x < 0.65 else "delete")) if live else \
        ("create" if x < 0.65 else ("update" if x < 0.85 else "delete"))
    if kind == "create":
        sh.write("create", key)
        return "ncreate %s %s" % (hx(key), hx(r.choice(values)))
    exp = r.choice(HOSTILE_REVS) if r.random() < 0.08 else hist.pick_exp(r, sh, key, 0.75)
    if kind == "delete" and r.random() < 0.4:
        exp = 0
    sh.write(kind, key, exp)
    if kind == "update":
        return "nupdate %s %s %d" % (hx(key), hx(r.choice(values)), exp)
    return "ndelete %s %d" % (hx(key), exp)


def native_read(r, sh, keys, floor):
    bounds = hist.bound_pool(keys)
    rev = 0 if r.random() < 0.4 else r.choice([r.randint(max(floor, hist.INIT), max(sh.dealt, hist.INIT)),
                                                 r.randint(hist.INIT, max(sh.dealt, hist.INIT)), sh.dealt + r.randint(1, 5)] +
                                                ([r.choice(HOSTILE_REVS)] if r.random() < 0.15 else []))
    a, b = r.choice(bounds), r.choice(bounds)
    if r.random() < 0.85 and a > b:
        a, b = b, a
    if r.random() < 0.4:
        a, b = PREFIX + b"/", PREFIX + b"0"
    x = r.random()
    if x < 0.3:
        return "nget %s %d" % (hx(r.choice(keys)), rev)
    if x < 0.6:
        lim = r.choice([0, 0, 1, 2, len(keys) + 1, -1, 2 ** 62])
        return "nrange %s %s %d %d" % (hx(a), hx(b), rev, lim)
    if x < 0.72:
        return "ncount %s %s" % (hx(a), hx(b))
    if x < 0.82:
        return "nparts %s %s" % (hx(a), hx(b))
    return "nstream %s %s %d" % (hx(ikey(a)), hx(ikey(b)), rev)


def gen_case(seed, i, engine):
    r = rng_for(seed, "native/%d" % i)
    keys = r.sample([k for k in KEY_POOL if b"events" not in k], r.randint(2, 4))
    values = [v for v in VALUES if v != hist.TOMB]
    sh = hist.Shadow()
    floor = [0]
    lines = [hist.cfg_line(engine, **({"leader": 0} if i % 7 == 3 else {}))]
    leader = [i % 7 != 3]

    def bracket(op):
        """an op expected to be refused, between two observations of the store and of a full range read"""
        return ["dump", ALL, op, "rev", "dump", ALL]

    def leader_phase(n):
        out = []
        for _ in range(n):
            x = r.random()
            if x < 0.25:
                op = invalid_shape(r, keys)
                if r.random() < 0.2 and not op.startswith(("ncompact", "nget", "nrange", "ncount", "nparts", "nstream")):
                    op += " ctx=expired"
                out += bracket(op)
            elif x < 0.55:
                out += [native_write(r, sh, keys, values), "rev"]
            elif x < 0.75:
                out.append(native_read(r, sh, keys, floor[0]))
            elif x < 0.8:
                # an expired deadline on a well-formed write: refused before anything happens
                op = r.choice(["ncreate %s %s" % (hx(r.choice(keys)), hx(b"late")),
                               "nupdate %s %s %d" % (hx(r.choice(keys)), hx(b"late"), r.choice([0, sh.dealt])),
                               "ndelete %s 0" % hx(r.choice(keys))])
                out += bracket(op + " ctx=expired")
            elif x < 0.84 and sh.dealt > hist.INIT + 2:
                c = r.randint(hist.INIT + 1, sh.dealt)
                floor[0] = max(floor[0], c)
                out += ["ncompact %d" % c, "dump"]
            elif x < 0.88:
                # the backend's own refusal of a write without a value (direct call, below the handler's validation)
                out += [r.choice(["create %s -" % hx(r.choice(keys)), "update %s - %d" % (hx(r.choice(keys)), r.choice([0, sh.dealt]))]), "rev"]
            elif x < 0.96:
                out += hist.gen_writes(r, sh, 1, keys, values, p_ok=0.8)
            else:
                out += hist.gen_reads(r, sh, 1, keys, lo_rev=max(floor[0], hist.INIT))
        return out

    def follower_phase(n, reachable):
        out = []
        for _ in range(n):
            x = r.random()
            if x < 0.2:
                out += bracket(invalid_shape(r, keys))
            elif x < 0.65:
                # a well-formed write (sometimes with an expired deadline as well): must not be applied
                sh2 = hist.Shadow()
                sh2.dealt, sh2.keys = sh.dealt, dict(sh.keys)
                op = native_write(r, sh2, keys, values) if r.random() < 0.8 else "ncompact %d" % max(hist.INIT + 1, sh.dealt - 1)
                if r.random() < 0.15 and not op.startswith("ncompact"):
                    op += " ctx=expired"
                out += bracket(op)
            else:
                op = native_read(r, sh, keys, floor[0])
                out += [op] if reachable else bracket(op)
        return out

    if leader[0]:
        lines += leader_phase(r.randint(6, 12))
    # follower whose leader cannot be reached: every write and every read is refused
    lines += ["role follower"] + follower_phase(r.randint(3, 6), False)
    # follower whose leader answers a revision of its own (sometimes ahead of this node): reads are served after
    # installing it, writes are still refused
    lrev = r.choice([hist.INIT, sh.dealt, sh.dealt + r.randint(1, 40)])
    lines += ["role follower lrev=%d" % lrev, "rev"] + follower_phase(r.randint(3, 6), True) + ["rev", "dump"]
    sh.dealt = max(sh.dealt, lrev)
    lines += ["role leader"] + leader_phase(r.randint(5, 10)) + ["rev", "dump", ALL]
    return core.Case("native", lines, {"engine": engine})


def _refused(out):
    o = out.split()
    return len(o) >= 3 and o[1] == "err" and o[2] in REFUSALS


def _hdr_data(op, o):
    """(header, [kv]) pairs carried by a native response line, already split"""
    if len(o) < 2 or o[1] == "err":
        return []
    try:
        if op == "nget" and len(o) >= 3:
            return [(int(o[1]), [hist.parse_kv(o[2])] if o[2] != "-" else [])]
        if op == "nrange" and len(o) >= 4:
            return [(int(o[1]), hist.parse_kvs(o[3]))]
        if op in ("nupdate", "ndelete") and o[1] in ("ok", "cf") and len(o) >= 4 and o[3] != "-":
            return [(int(o[2]), [hist.parse_kv(o[3])])]
        if op == "nstream" and o[1] != "-" and o[1] != "end":
            res = []
            for ent in o[1].split(","):
                kv, h = ent.rsplit("|", 1)
                res.append((int(h), [hist.parse_kv(kv)]))
            return res
    except (ValueError, IndexError):
        return []
    return []


def first_read_oracle(case):
    lrev = None
    for i, (line, out) in enumerate(zip(case.lines, case.impl or [])):
        t, o = line.split(), out.split()
        if t[0] == "role":
            lrev = int(t[2].split("=")[1]) if len(t) > 2 and t[1] == "follower" else None
            continue
        if lrev is None or t[0] not in N_READS or len(o) < 2 or o[1] == "err":
            continue
        hdrs = []
        if t[0] == "nstream":
            hdrs = [int(x.rsplit("|", 1)[1]) for x in o[1].split(",") if "|" in x]
            if "end" in o:
                hdrs.append(int(o[o.index("end") + 1]))
        elif o[1].isdigit():
            hdrs = [int(o[1])]
        low = [h for h in hdrs if h < lrev]
        if low:
            return ("line %d: a follower answered `%s` at revision %d although the leader's read revision, which it has to adopt "
                    "BEFORE it reads, was %d: %s" % (i + 1, line[:60], low[0], lrev, out[:160]), "follower-read-below-leader-revision")
    return None


def oracle(case):
    if case.meta.get("first_read"):
        hit = first_read_oracle(case)
        if hit:
            return hit
    impl = case.impl or []
    if impl and (impl[-1].startswith("CRASHED") or impl[-1] == "TIMEOUT"):
        return ("the node process died / hung while serving native requests: %s" % impl[-1][:300], "native-process-died")
    follower = "leader=0" in case.lines[0].split()
    last_dump = None          # (line number, output) of the last `dump` with only refused requests since
    last_list = {}            # list line -> (line number, kvs) under the same condition
    for i, (line, out) in enumerate(zip(case.lines, impl)):
        t, o = line.split(), out.split()
        op = t[0]
        if " PANIC" in out:
            return ("line %d: `%s` panicked inside the handler: %s" % (i + 1, line, out[:200]), "native-handler-panic")
        if op == "cfg":
            follower = "leader=0" in t
            continue
        if op == "role":
            follower = t[1] != "leader"
            continue
        if op in N_WRITES and follower and not _refused(out):
            return ("line %d: a follower answered the native write `%s` with `%s` instead of refusing it" % (i + 1, line, out[:200]),
                    "native-follower-write-accepted")
        for hdr, kvs in _hdr_data(op, o):
            for kv in kvs:
                if kv and kv[2] > hdr:
                    return ("line %d: `%s` -> `%s`: header %d < data revision %d" % (i + 1, line, out[:200], hdr, kv[2]),
                            "native-header-lt-data")
        if op == "dump":
            if last_dump is not None and out != last_dump[1]:
                culprit = [case.lines[j] for j in range(last_dump[0] + 1, i) if case.lines[j].split()[0] in N_WRITES + N_READS]
                role = "a follower" if follower else "the handler layer"
                return ("line %d: the store changed between the dumps of lines %d and %d although %s refused every request in "
                        "between (%s)" % (i + 1, last_dump[0] + 1, i + 1, role, "; ".join(culprit)[:300]),
                        "native-follower-write-applied" if follower else "native-refused-request-changed-store")
            last_dump = (i, out)
            continue
        if op == "list" and len(o) >= 4 and o[1] != "err":
            prev = last_list.get(line)
            if prev is not None and prev[1] != o[3]:
                return ("line %d: `%s` answers differently from line %d although only refused requests lie in between"
                        % (i + 1, line, prev[0] + 1), "native-refused-request-changed-reads")
            last_list[line] = (i, o[3])
            continue
        if op in MUTATING and not _refused(out):
            # something was (possibly) applied: later observations are not comparable with earlier ones
            last_dump, last_list = None, {}
    return None


def follower_first_read_case(engine, kind):
    """a follower whose leader is AHEAD: the very first read after each move of the leader's revision is of one kind
    (stream / range / get / count / partitions at revision 0 = latest): it must be answered at the revision adopted for
    THIS request - the sync comes first, then "latest" is resolved"""
    a, b = PREFIX + b"/", PREFIX + b"0"
    ops = {"stream": "nstream %s %s 0" % (hx(ikey(a)), hx(ikey(b))), "range": "nrange %s %s 0 0" % (hx(a), hx(b)),
           "get": "nget %s 0" % hx(PREFIX + b"/a"), "count": "ncount %s %s" % (hx(a), hx(b)), "parts": "nparts %s %s" % (hx(a), hx(b))}
    lines = [hist.cfg_line(engine), "ncreate %s %s" % (hx(PREFIX + b"/a"), hx(b"v1")), "rev", "ncreate %s %s" % (hx(PREFIX + b"/b"), hx(b"v2")), "rev"]
    for step in (7, 19, 40):
        lines += ["role follower lrev=%d" % (hist.INIT + 2 + step), ops[kind], "rev"]
    lines += ["role leader", "ncreate %s %s" % (hx(PREFIX + b"/c"), hx(b"v3")), "rev", ALL]
    return core.Case("native", lines, {"engine": engine, "first_read": kind})


def check(rep, tier, seed, prop="C20"):
    """the native-handler part of a property check: run the cases, judge them (oracles first, then correspondence)"""
    n = 12 if tier == "quick" else 1500
    cases = [gen_case(seed, i, ENGINES[i % 3]) for i in range(n)]
    cases += [follower_first_read_case(e, k) for e in (ENGINES if tier != "quick" else ENGINES[:1]) for k in ("stream", "range", "get", "count", "parts")]
    core.run_cases(cases)
    refused = sum(1 for c in cases for out in (c.impl or []) if _refused(out))
    rep.cov.setdefault("native_handlers", {}).update({"scripts": len(cases), "refusals_observed": refused})
    rep.assumptions.append(
        "native handler part: the handlers of pkg/server/brain (Create/Update/Delete/Compact/Get/Range/Count/ListPartition/"
        "RangeStream) run in-process over a real backend with a scripted election and the real revision syncer; not covered: "
        "metric emission of the handlers (C20 metrics part), the 1 s write timeout handed to the backend (wall clock), what an "
        "engine does with an expired context on the paths that do not check the deadline (Compact, reads)")
    return core.judge(rep, prop, cases, oracle, tag="correspondence-native")
